import json, glob, os, re
src = open('/verif/DESIGN.md').read()
def section(n, nxt):
    a = src.index("\n## %d. " % n)
    b = src.index("\n## %d. " % nxt) if nxt else len(src)
    return src[a:b]
s1, s2, s3, s5, s7 = section(1, 2), section(2, 3), section(3, 4), section(5, 6), section(7, 8)

head = '''# DESIGN — model-based verification of cnotch/ipchub with explicit TLA+ specifications

Status: **built**. All twenty properties C01–C20 are claimed in MANIFEST.json and decided with an explicit TLA+
specification checked by TLC and bound to the code by behaviour replay and / or trace validation; `not_applicable`
is empty. Sections 1–3, 5 and 7 are the design as written before the build (still the reference for the approach;
where the build deviated, section 9 says how). Sections 4, 6 and 8–12 describe what exists now: the specification
inventory, the %d genuine defects repaired and the %d recorded as known findings, the false alarms of my own
machinery and what was done about them, the seeded changes and which check catches which, timings and limits.

Contents

1. What is being decided, and the verdict rule
2. The system as the specifications see it
3. Common machinery (layout, hooks, scheduler, TLC in three roles, traces, evidence, findings)
4. Specification inventory (as built)
5. Per-property design C01 … C20 (as designed)
6. Genuine defects: repaired, and recorded as known findings
7. Soundness: where false alarms could come from and how each is closed
8. False alarms that did occur during the build, and what was done
9. Per-property: what was built, deviations from section 5
10. Seeded changes: which checks catch which
11. Tiers, timings, reproducibility
12. Limits and what is not covered

---------------------------------------------------------------------------------------------------
''' % (len(json.load(open('/verif/KNOWN_FINDINGS.json'))['fixed']), len(json.load(open('/verif/KNOWN_FINDINGS.json'))['findings']))

inv = '''
## 4. Specification inventory (as built)

Every directory under `spec/` is one specification family; `bin/check <ID> quick|thorough` runs `checks/<id>.py`,
which names the configs it uses. "P" = property-level module (written from the statement; its verdicts are the only
source of VIOLATION lines), "I" = implementation-level module (one action per code step between two hooks; used to
generate behaviours, checked against the property invariants, and compared with the code as *drift*, never as a
verdict), "G" = generator of an input / fault space, "A" = acceptor used for trace validation.

| spec dir | modules | role | binds to code through | serves |
|---|---|---|---|---|
| `fanout` | `Fanout` (I: publisher, joiners, consumer goroutines, closer, stoppers, replacement; named deviations FixWake / FixAttach / FixCount / FixJoin), `FanoutProp` (P), `MCFanout` (invariants, edge classes), `FanoutTrace` (A, API level), `FanoutSteps` (A, step level), `TransportTrace` (A: what real clients of every transport read), `ConvLoop` (I/P: converter goroutine loop vs Close; negative control bare signal), `ConvTrace` (A) | model check + schedule generation + trace validation | `harness/fanout` + `harness/vsched` (goroutines parked at `vhook.At` points, one step at a time) | C01 C02 C03 C04 |
| `registry` | `Registry` (P: sequential reference model with the statement's clauses as invariants), `RegistRace` (I: two concurrent Regist / GetOrCreate), `RaceTrace` (A) | histories (exhaustive, edge cover, walks), race schedules | `harness/registry` | C05 (and C03's registry leg) |
| `rtsp` | `RtspSession` (P/I: 20 request kinds x state; `Carrier` = rtsp / wsp) | edge cover + walks | `harness/rtspsess` against a live server over TCP, RTSP-over-WebSocket and a WSP channel pair | C12 |
| `api` | `MgmtApi` (P: every call of the management API - who may call it, answer, payload, paging, state left behind), `MCMgmtApi` | exhaustive histories of 2 calls, first history per class of call, walks of 25 calls | `harness/api` against the HTTP server | C03 C05 C11 C18 |
| `wire` | `WriteLock` (I: lock protocol, negative controls NoFrameLock / NoRespLock), `BufferedWrite` (I: the shared write buffer at copy / advance, emit / reset grain; negative control flush outside the lock), `PooledWrite` (I: pooled message buffers of the WebSocket writers; negative controls put-before-write, double put), `WireTrace` (A) | gates at `frame.prefix` / `flush.written` / `ws.write` | `harness/c13`, tcp + websocket | C13 |
| `auth` | `Auth` (P: reference monitor over users, rights as last saved, tokens), `WspJoin` (I/P: WSP channel ids, INIT / store / JOIN; negative controls unbound JOIN / answer before store) | edge cover | `harness/c11`, nine entry points of a live server | C11 |
| `pull` | `Pull` (P/I: 1940 camera plans) | plan enumeration | `harness/c20` scripted camera | C20 |
| `depack` | `Depack` (P: must / may receiver over packetisation and fault plans) | plan enumeration | `harness/c06` independent packetiser | C06 |
| `tsout` | `TsCases` (G), `TsOut` (A) | case enumeration + trace validation | `harness/c09` independent demultiplexer | C09 |
| `flvout` | `FlvCases` (G), `FlvOut` (A) | same | `harness/c08` independent FLV parser | C08 |
| `hls` | `Hls` (I: segmenter, window, pooled / file store, readers; deviations FixSegPool / FixM3u8Pool / FixAudioCut), `MCHls`, `HlsTrace` (P/A) | model check with 4 negative controls, class cover + walks, trace validation; gate at `hls.seg.found` (rollover attempted inside `Open`'s critical section, open-race leg) | `harness/c10` (package level and live HTTP), `harness/tsdemux` | C10 |
| `rtspwire` | `WireReader` (I/P: the connection reader under arbitrary chunking; negative controls single-Read body / no line limit), `WireCases` (G), `WireFaults` (G), `RtspWire` (A) | model check + enumeration + trace validation | `harness/c14` on the real dispatcher (`VerifReceive`) | C14 |
| `params` | `ParamCases` (G: syntax-branch space), `ParamProp` (P/A: the standards' derivations) | enumeration + trace validation | `harness/c15` independent bit-exact encoders | C15 |
| `contain` | `Contain` (I/P: stage-wise containment, Recover = item / once / none), `FaultCases`, `HostileCases` (G), `ContainTrace` (A) | model check with 2 negative controls, enumeration, trace validation | `harness/c07` injection into live streams / sessions | C07 |
| `pathpattern` | `PathPattern` (P), `PathTable`, `PathTrace` (A) | exhaustive tables | `harness/c16` | C16 |
| `tables` | `RouteTable`, `UserTable` (P), `Durable` (I: DurableInPlace negative control / DurableAtomic) | exhaustive, deep one-key, walks, crash points | `harness/tables` (incl. SIGKILL at `json.*` hooks) | C17 C18 |
| `sniff` | `Sniff` (I/P), `Lines` | segmentations | `harness/c19` | C19 |
| `common` | `Str` | string helpers shared by several specs | | |

Hooks in /repo (all behind `//go:build verif`, add-only, listed in MANIFEST.hooks): `utils/vhook` (point hooks),
`json.*` crash points in `utils/io.go`, `listener.VerifNew`, media hooks + `media/verif_export.go`,
`config.VerifSet` / timeouts / heartbeat overrides, `service.VerifServe` / `VerifTokens`, `auth.VerifAge`,
`frame.prefix`, `flush.written`, `service/rtsp.VerifReceive`.
'''

kf = json.load(open('/verif/KNOWN_FINDINGS.json'))
rows = []
for f in kf['fixed']:
    what = f['what'].split(f.get('commit', ''), 1)[-1].strip().replace('|', '/')
    rows.append("| %s | `%s` | %s |" % (f['property'], f.get('commit'), what))
frows = []
for f in kf['findings']:
    frows.append("| %s | `%s` | %s | %s |" % (f['property'], f['key'], f['what'].replace('|', '/'), f.get('disposition', '').replace('|', '/')))
defects = '''
## 6. Genuine defects: repaired, and recorded as known findings

Every entry was first shown on the real code by a check (the failing input, schedule or history is in the entry),
then repaired by one unguarded `fix:` commit in /repo (the unedited 116-test suite passes with the tag off after the
last of them), and is listed in `KNOWN_FINDINGS.json` under `fixed` - which suppresses nothing: the check passes on
the repaired tree and reports the violation again if it returns (most seeded changes of section 10 are exactly
such returns).

| property | commit | what failed |
|---|---|---|
''' + "\n".join(rows) + '''

Recorded, not repaired (the check prints `KNOWN-FINDING:` and exits 0; any *other* violation of the same property
has a different key and is still reported):

| property | key | what fails | why not repaired |
|---|---|---|---|
''' + "\n".join(frows) + '''

Defects predicted at design time that turned out differently: "STAP-A(SPS+IDR) not a key frame" is covered by the C02 packetisation
variants and holds on the current tree.
'''

falsealarms = '''
## 8. False alarms that did occur during the build, and what was done

None of these is listed as a known finding; in each case the machinery was corrected (or the clause dropped) and
the check re-run on the unchanged tree with several seeds.

* **Fan-out model drift reported as violations (C01-C04, early).** The first implementation-level model missed
  mutex barging (after Unlock the same goroutine may re-acquire first), combined two code steps in one action and
  let stoppers run before StartConsume had returned. Fixed in `Fanout.tla`; since then drift is reported separately
  from verdicts and is zero on the unchanged tree.
* **"consumer-not-closed" at end of run (C03).** A torn frame at EOF in the recording consumer, not the server;
  the harness was corrected and an unnecessary /repo change I had drafted was reverted before committing.
* **Gate-scheduler flakes.** Truncated goroutine dumps, goroutines of earlier runs, a stale busy snapshot in
  `Settle`: all in `harness/vsched`, fixed there (hermetic runs, whitelist of inter-goroutine wait states).
* **Quiescence taken too early under load (C01, late).** A thorough run and one of the seed sweeps - both running beside
  other heavy jobs - reported `incomplete-delivery` for schedules that pass when replayed: the publisher and a joiner
  were both seen waiting for the scheduler's OWN mutex (taken for a few instructions per hook, also by `Settle` itself)
  in two consecutive samples, which `Settle` took for "everything is blocked inside the code". A wait on a harness
  mutex is now classified as busy (the innermost frame that is not runtime / sync decides whose lock it is). The
  replay driver also had a lock-order inversion of its own (runner mutex vs scheduler mutex) that hung one schedule in
  50 000; a watchdog now dumps schedule and stacks of a run that does not finish.
* **C12 over-demands.** The first `RtspSession.tla` fixed the answer to a mode-less SETUP after RECORD, let a refused
  SETUP change state and expected a response to a first request that the multiplexer closes; the statement fixes
  none of these, so the model now leaves them open ("any" / dirty state, implicit OPTIONS opener).
* **C16 seeds judged outside the statement.** Two seeded changes (non-canonical path spelling, administrator with a
  separator-only right) violate nothing the statement says; they are kept under `seeded/_not_adopted/` with the
  reasoning, and no check was bent to catch them.
* **C20 harness artefacts.** Asynchronous registration and a scripted camera that did not notice the peer closing
  looked like leaked pulls; fixed in the camera script.
* **C06.** Units of one aggregation packet must share the packet's timestamp (harness), and reordering semantics
  needed a must / may split in `Depack.tla`; before that the oracle demanded units the statement lets the receiver drop.
* **C09 / C08 trace arithmetic.** JSON integers above 2^31 silently wrapped inside TLC; big values now travel as
  strings or as booleans computed by the driver. `cond \\/ PrintT(..)` evaluated both sides; all acceptors use
  `IF cond THEN TRUE ELSE Bad(..)`.
* **C10.** (a) My demultiplexer required stuffing bytes to be 0xff; the statement (C09) does not, and as found the
  writer leaves stale header bytes there: clause removed from `harness/tsdemux`. (b) Audio PTS inside segments was
  compared exactly, but `hlsAacJitter` re-stamps AAC on purpose: tolerance 100 ms, documented as an assumption.
  (c) KeyStart was violated in the model by video resuming with a non-key frame after an audio-only gap: that is an
  input the statement cannot mean, so the input assumption "a non-key frame follows the previous video frame
  within two fragment lengths" was added (it is listed in the evidence).
* **C10, thorough tier.** The first full thorough run reported `segment-starts-with-a-non-key-frame` under a key that is
  not the known finding's: same defect (audio cut at twice the fragment length), but the acceptor measured the age of
  the *first* segment from its first frame while the code counts it from time 0. The classification was corrected
  (`HlsTrace.tla`); the other report of that run (a segment file left behind after close, 1 of 120 runs) was genuine
  and repaired (1c8bde1).
* **C12, thorough tier.** Three reports: a refused DESCRIBE of another path changes the path the session remembers (so a
  later PLAY is answered 404, and a later RECORD publishes under that path), which `RtspSession.tla` treated as "a
  refused request is not a step"; the statement only promises that for 455. The model now marks the session
  dirty after such a refusal, and the driver uses a different missing path per sequence (a stream published there by
  one sequence had made the path exist for the next one).
* **C14.** "Header section with endless short lines" and "Content-Length that is not a number" were first judged as
  violations; the statement names the over-long *line* and the *absurd length*, so the former is observed only and
  the latter must merely not panic, hang or allocate.
* **C15.** The SDP leg first used an rtpmap whose clock rate contradicted the AudioSpecificConfig; which of the two
  wins is not something the statement settles, so the leg now uses a conformant rtpmap (the remaining mismatch, mono
  with the channel count omitted, is unambiguous under RFC 4566 and was a genuine defect).
* **C11 / WSP.** The first WSP client opened the sockets on a path the user may pull and asked for another path inside
  the wrapped RTSP; the server answered and media arrived - but it was the media of the socket's own path (WSP serves
  the stream named by the WebSocket URL). Streams are now recognisable by their SSRC and only media of the requested
  stream counts; never committed as a violation.
* **C12 over WebSocket (late).** The first run of the request sequences over ws-rtsp expected DESCRIBE of a missing path
  to be refused; over WebSocket the stream is named by the ws:// path, by design, so the sequences are mapped by opening
  the socket on the path their DESCRIBE names (never committed as a violation). The same run did expose two genuine
  defects (empty WebSocket messages, PAUSE before PLAY over WSP).
* **Management API model (late).** `MgmtApi.tla` first gave the stream listing the same next-page token rule as the
  route and user listings; the code differs (an empty page carries an empty token). No property says which is right:
  modelled as found, named as a deviation.
* **C10 time bases (late).** Source times that are not multiples of 9 ticks lose a tick in the nanosecond conversion of
  the harness itself; the bases are rounded, and the first segment's start is installed with `VerifStartAt`.
* **C07.** Random RTCP bytes that form a well-formed sender report are not "malformed"; they are excluded from the
  garbage class (their effect on the time line is the C06 known finding). For one run HLS output after an injection was
  only counted when its key frames carried the stream's own SPS / PPS; C07 says nothing about that (it is C09 / C10
  territory), so the clause was removed again.
'''

asbuilt = '''
## 9. Per-property: what was built, deviations from section 5

Each check's `META["text"]` (copied into MANIFEST.json `level_claimed.text`) is the precise statement of what is
enumerated; this section only records where the build differs from the design.

* **C01-C04** as designed (`Fanout*`, gate scheduler). Added during the build: FLV media mode, replacement,
  3-consumer scenarios, packetisation variants, consumers whose Close panics, simulation from the as-found model
  (so that schedules the fixed model no longer produces are still replayed), stratified "racy" edge classes, and (late) a
  transport leg for C01: real RTSP/TCP, RTSP/UDP, ws-rtsp, WSP, HTTP-FLV and WebSocket-FLV clients of a running server,
  validated against `TransportTrace.tla`. It showed that the stream writers batch (data waits in the connection buffer
  until the next write if the last flush is younger than 20 ms): with a publisher that goes quiet the tail is not
  delivered until it speaks again - by design, handled by a trailer in the driver and stated as an assumption.
* **C05** (late) the stream set is a constant: besides two generations of "/a" and a stream of "/b" there is a
  configuration with three generations of one path, covered by the first history per class of step (seed C05-8).
  `Registry.tla` is a sequential reference model (histories) rather than a step model; the races are in
  `RegistRace.tla`. HLS access ("recent" by instants) was added after seed C05-3. A free-running leg looks the path
  up from three goroutines while a retired stream is unregistered (after seed C05-5). The operation `shutdown` (what Service.Close
  does to the media centre) was added to `Registry.tla` late and exposed a genuine defect (retired streams survived it).
* **C03** additionally has a converter leg: `ConvLoop.tla` (loop / Close protocol of the three conversion goroutines,
  bare signal as negative control) and the schedule "Close between the loop condition and Pop" forced on the real
  converters through the hook `conv.loop` - a genuine defect, fixed in 2c6d1fe.
* **C06** as designed plus sender-report leg, sequence wrap placed inside plans, RTP time 0 and 2^32 crossing, and (after
  seed C06-6) thirteen short demuxer lifetimes with the RTP timestamps of a stream with B pictures (neighbouring
  presentation times swapped, so timestamps also go backwards) crossing the 32-bit boundary after 1..12 access units.
* **C07** (late) the session leg now requires that the stream goes on relaying after every well-framed hostile frame
  (unknown channel, empty frame, RTP header too short - these closed the publisher's connection: repaired in 1d40116);
  good frames alternate between single-NAL packets and fragmentation units, and "a fragmentation unit begun and never
  finished" is a fault class (seed C07-4). `Contain.tla` models stage-wise recovery (item / once / none) instead of a per-fault-class liveness
  model; the fault space is in `FaultCases.tla` / `HostileCases.tla`; level is `model_checking` (the design said
  fault_enumeration: the enumeration is still the bulk, but the containment design itself is model checked with
  negative controls). Added after the seeds: SDP variants without parameter sets (the good stream then repeats them
  in band), in-band parameter-set faults (truncated at every length, garbage, cut after three bytes), every RTP pad
  count between payload + 1 and beyond the packet, and reporting of a hung driver with the case in progress.
* **C08, C09** acceptor + case-generator pairs instead of one output automaton; H.265 added to C08, later every kind of
  IDR / IRAP picture as key frame (seed C08-6). C09 got a second driver after seeds C09-5 / C09-6: streams through the real
  HLS segment generator (which batches audio), every segment read back and demultiplexed, parameter sets in the SDP or
  filled in afterwards, three positions on the time line.
* **C10** every behaviour is replayed at one of four positions on the source's time line (0, just before the 33-bit TS
  clock wraps, just before 2^63 / 10^9 ticks = 28.5 h, nine days), the state of a stream that has been running that long
  being installed through the verif-only export `VerifStartAt` rather than streamed - which exposed the int64 overflow
  repaired in 3823098. Otherwise as designed; the pool-dependence caveat of section 7 turned out unnecessary in practice (reuse happens
  in every run), the server-level leg compares HTTP bytes with a synchronous reference run.
* **C11** (late) every HTTP request and WebSocket upgrade of the drivers carries the server's internal identity header
  naming the administrator (seed C11-7); an RTSP-over-WebSocket session of u1 is opened as soon as u1 may pull a path
  and asks again after every operation of the history (genuine defect: a deleted user stayed authorised, ba3b55f).
  Reference monitor + ten entry points (WSP added late: control + data socket, and a leg that joins a data
  socket to another user's channel using ids derived from the attacker's own - a genuine defect, fixed in b6695a6).
  Further legs added with the second round of seeds: a WebSocket opened on a segment-shaped URL, a last path segment
  '..' under a single-level-wildcard right, WSP sockets opened under a right that is narrowed before PLAY, paths
  percent-encoded twice; `WspJoin.tla` is the design model of the channel pairing (two negative controls).
* **C12, C13** as designed; the buffered flush is modelled in `BufferedWrite.tla` (added late), the flush gate is in the harness.
  Added in the last round: `PooledWrite.tla` (ownership of the pooled message buffers of the WebSocket writers, three
  negative controls) with the hook `ws.write`; C12's sequences also run over RTSP-over-WebSocket (the stream a DESCRIBE
  names is then the ws:// path, by design - the mapping is stated in the check's assumptions); the publisher of the C13 /
  C12 drivers now also sends audio the players did not set up, which exposed a genuine defect (an empty WebSocket message
  per packet of a channel that is not set up, fixed in d891ece); WebSocket players that set up the video track only are
  part of the transport leg, whose acceptor has a C13 clause (every message exactly one frame or response).
* **C17** lookups run before and after the flush + restart suffix of every history (derived state that a restart would
  rebuild is otherwise never looked at: seed C17-5), and a free-running leg resolves a path beside in-place updates of the
  matched directory route (seed C17-4).
* **C02** scenario `gopsps1` (parameter sets repeated inside a GOP) added after seed C02-6.
* **C14** (late) the negotiated channel numbers vary per case (seed C14-6) and sixteen goroutines encode and parse back
  their own messages side by side (seed C14-4: a pooled helper returned too early). `Wire` became `WireReader` (design model) + `WireCases` / `WireFaults` / `RtspWire`; the dispatcher is reached through a verif-only
  export.
* **C15** (late) the H.265 case space got a reference-picture-set chain in which a predicted picture falls on dPoc 0
  (exposed the uint8 sign computation repaired in e8b7e59); the AudioSpecificConfig is observed through
  `aac.MetadataIsReady`, the function the server uses, not through a copy of its logic (seed C15-6). `CodecSyntax` became `ParamCases` (branch space) + `ParamProp` (derivations) with bit-exact encoders in
  the harness; the H.265 fixed-rate flag is not judged (no such flag in the standard's VUI).
* **C16-C19** as designed; C18 later got "save with a URL that does not parse" as an operation (a refused edit changes
  nothing, seed C18-9) and a leg in which an edit arrives while a flush is held at the hook `json.write` (seed C18-8).
* **Management API** (not in the original design): `MgmtApi.tla` is a reference model of service/apis.go; its replay is a
  leg of C03 (administrative delete / stop of one consumer), C05 (listings and counts match the live streams), C11 (who
  may call what; a refused call changes nothing) and C18 (tables equal the edits applied in order) - a deviation is
  reported by the check of the property it belongs to.
* **C10** (late) disk-mode behaviours run beside a neighbour stream in the same directory whose path differs only in where
  '/' and '_' are (seed C10-5) or which has the very same path - a replaced stream that is still open: a genuine defect,
  both generators used the same file names, repaired in 19d70b3 and also shown on the server (`TestHlsReplaced`); a free-running leg compares the playlists served while eight pollers are in flight with a
  reference run without them (seed C10-4).
* **C20** as designed plus per-step nonces, keep-alive leg, bare-URL route, concurrent first requests.
'''

seed_rows = []
for p in sorted(glob.glob('/verif/seeded/C*/meta.json')):
    m = json.load(open(p))
    name = os.path.basename(os.path.dirname(p))
    br = (m.get('breaks') or '').replace('|', '/').replace('\n', ' ')
    br = br[:170] + ('…' if len(br) > 170 else '')
    seed_rows.append("| %s | %s | %s |" % (name, br, m['status'].replace('|', '/')))
seeds = '''
## 10. Seeded changes: which checks catch which

%d changes written by fresh sub-agents that saw only a property's text and a scratch worktree; each was vetted by
me in a scratch worktree (`bin/vetseed`: demo passes on the clean tree, fails with the patch, both builds succeed,
the baseline suite is unchanged) and is stored as `seeded/<id>/{patch.diff, demo/, meta.json}`. `bin/tryseed` applies
one to a scratch copy of /repo and runs a check against the copy (`VERIF_REPO`, a `-modfile` whose replace directive
points at the copy), so /repo is never touched and checks running elsewhere are not disturbed. "after ..." in the last column is what had to be added to the
machinery to catch a change that was missed at first.

| seed | what it changes | caught by |
|---|---|---|
''' % len(seed_rows) + "\n".join(seed_rows) + '''

Every adopted change is caught. The pooled-buffer changes **C13-5**, **C12-5** (a buffer returned to the pool before the
WebSocket write) and **C01-6** (a buffer pooled twice after a failed write) were missed until the hook `ws.write` (entry
of the WebSocket message writers) was added: `PooledWrite.tla` models the ownership discipline with these three changes as
negative controls, C13 parks a response at that point while three players use the shared pool, C12 runs its sequences over
RTSP-over-WebSocket with responses slowed there, and the C01 transport leg slows every 7th WebSocket message by 300 us so
that the players' delivery goroutines are not always at the same packet. Seven seed patches (C01-1, C02-1, C02-3, C05-2,
C05-4, C13-2, C13-6) and C13-5 were rebased onto later `fix:` commits (same change, same verdict). Neutralised: **C11-9** (a copy-on-write user update; the long-lived ws-rtsp leg written for it exposed that deleted users
stayed authorised on open sessions - repaired in ba3b55f, after which the change has no effect) and **C11-4** (its scenario exposed
a genuine defect; with the repair cf92d92 the seeded change no longer lets media through).
Not caught by the check of its own property: **C01-4** (caught by `bin/check C13 quick`), **C20-6** (caught by `bin/check C03 quick`), **C03-3** (caught by `bin/check C04 quick` as drop-not-aligned; the
C03 clause needs a schedule the quick tier does not generate) and **C08-2** (caught by `bin/check C02 quick`).
Not adopted (see `seeded/_not_adopted/README.md`): C16-2, C16-3 (outside the statement), C01-5 (unreachable through the server). 
'''

tiers = '''
## 11. Tiers, timings, reproducibility

`bin/check <ID> quick` is meant for every change (measured wall times on 16 cores, unchanged tree, machine otherwise
idle; two to three times as long beside other jobs): C01 110 s, C02 100 s, C03 230 s, C04 50 s, C05 160 s, C06 50 s,
C07 50 s, C08 20 s, C09 11 s, C10 140 s, C11 100 s, C12 100 s, C13 30 s, C14 60 s, C15 32 s, C16 16 s, C17 50 s, C18 160 s,
C19 24 s, C20 22 s. `thorough` (measured, partly beside other jobs: C01 2880 s, C02 2160 s, C03 3670 s, C04 2100 s,
C05 1370 s, C06 105 s, C07 133 s, C08 157 s, C09 93 s, C10 1470 s, C11 532 s, C12 560 s, C13 183 s, C14 302 s, C15 101 s,
C16 49 s, C17 568 s, C18 857 s, C19 248 s, C20 406 s) uses the larger
configs named in each check (all scenarios, all pairs / triples, more walks, repetitions of schedule-dependent
legs). Every run takes `VERIF_SEED` (default 1) for sampling, payload bytes and simulation seeds; evidence files
record the TLC runs (config, states, wall time), the numbers of behaviours / cases / records and samples of them.
Exit codes: 0 property held on everything explored (KNOWN-FINDING lines allowed), 1 with `VIOLATION property=<id>
replay=<path>` lines, 2 for infrastructure problems (TLC or driver failure, timeouts, vacuity guards, a
counterexample that did not reproduce) - never a verdict.

## 12. Limits and what is not covered

* Multicast datagrams cannot be received in the sandbox; for multicast players the checks observe the proxy's consumer
  registration and the players' RTSP connections (two genuine defects found that way).
* Freshness of the HLS window is a verdict in disk mode and at quiescence over HTTP only; in memory mode it is
  covered by model drift.
* C10-1 (a lock narrowed around the segment lookup) is now forced: gate `hls.seg.found` sits between the window lookup
  and `get()`; the open-race leg of C10 attempts five rollovers from inside the gate and accepts only the two serial
  orders of Hls.tla's atomic `Open` (same bytes, or not found after a completed rollover). On the unchanged tree the
  rollover blocks on the read lock every time (`rollover_blocked_by_reader` in the evidence).
* Pool aliasing between goroutines is provoked, not forced: the hook `ws.write` widens the window between encoding and
  writing, but which goroutine receives a buffer that was given back is up to sync.Pool (few Ps and several players make
  it likely; the three seeded changes of that kind were caught in every run tried).
* Memory allocated while parsing arbitrary bytes (e.g. a VPS announcing 65535 HRD structures) is observed nowhere.
* A sender report with an arbitrary clock re-bases presentation times (C06 known finding); HLS then stops cutting
  segments until the time line passes the old position again. This interaction is documented, not checked.
* Apalache / TLAPS were not used: the specifications that decide verdicts are sequence-heavy acceptors and
  implementation-shaped models for which TLC's explicit enumeration and trace validation are the fit; no inductive
  invariant is claimed anywhere.
* The third-party `cnotch/queue` and `cnotch/scheduler` modules are modelled from their source and bound only
  through the repository's call sites.
'''
out = head + s1 + s2 + s3 + inv + "\n---------------------------------------------------------------------------------------------------\n" + s5 + defects + "\n---------------------------------------------------------------------------------------------------\n" + s7 + falsealarms + asbuilt + seeds + tiers
open('/verif/DESIGN.md', 'w').write(out)
print(len(out.splitlines()))
