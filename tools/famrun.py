#!/usr/bin/env python3
"""tools/famrun.py <PROP> <scenario,scenario> <nsim> <nedges> [thorough]: run the fan-out machinery on chosen scenarios (debug aid)"""
import sys, os
sys.path.insert(0, '/verif/lib'); sys.path.insert(0, '/verif')
import vlib
from checks import fanout_common as fc
prop, scs, nsim, nedges = sys.argv[1], sys.argv[2].split(','), int(sys.argv[3]), int(sys.argv[4])
tier = 'thorough' if len(sys.argv) > 5 else 'quick'
os.chdir('/verif')
ck = vlib.Check(prop, tier)
fc.run_family(ck, prop, scs, [prop], nsim, nedges)
print({k: (v['executions'], v['explained_by_model'], v.get('edge_classes')) for k, v in ck.cov['scenarios'].items()}, 'drift', ck.cov['model_drift'])
for key, what, _ in ck.violations[:5]:
    print('VIOL', key, what[:300])
ck.cleanup()
