#!/usr/bin/env python3
"""tools/stepdebug.py <scenario> <seed> [n]: simulate n schedules, replay them on the real code, and show for the first
execution that Fanout.tla cannot explain the record where step-level validation stops."""
import sys, json, os, subprocess, shutil, re
sys.path.insert(0, '/verif'); sys.path.insert(0, '/verif/lib')
from checks import fanout_scenarios as fs
name, seed = sys.argv[1], sys.argv[2]
n = sys.argv[3] if len(sys.argv) > 3 else "5"
sc = fs.SCENARIOS[name]
W = '/tmp/fo'; S = '/tmp/t1'
shutil.rmtree(S, ignore_errors=True); os.makedirs(S); os.makedirs(W, exist_ok=True)
for d in ('/verif/spec/fanout', '/verif/spec/common'):
    for f in os.listdir(d): shutil.copy(os.path.join(d, f), S)
open(W + '/sc.ndjson', 'w').write(json.dumps({k: v for k, v in sc.items() if k != 'pkts_name'}) + '\n')
open(S + '/steps.cfg', 'w').write(fs.cfg(sc, 'steps', steps=True).replace('NEXT StepsNext', 'NEXT Strict'))
open(S + '/sim.cfg', 'w').write(fs.cfg(sc, 'final', emit='final'))
out = subprocess.run(['tlc', '-workers', '1', '-simulate', 'num=' + n, '-depth', '120', '-seed', seed, '-metadir', S + '/m1', '-config', 'sim.cfg', 'MCFanout.tla'], cwd=S, capture_output=True, text=True).stdout
hs = []
for l in out.splitlines():
    if l.startswith('<<"@S", '):
        h = json.loads(json.loads(l[len('<<"@S", '):-2]))
        if h not in hs: hs.append(h)
env = dict(os.environ, GOFLAGS='-mod=mod', GOPROXY='off', GOSUMDB='off', VERIF_SCENARIOS=W + '/sc.ndjson', VERIF_IN=W + '/in.ndjson',
           VERIF_OUT_API=W + '/api.ndjson', VERIF_OUT_STEPS=W + '/steps.ndjson', VERIF_OUT=W + '/out.json')
for k, h in enumerate(hs):
    open(W + '/in.ndjson', 'w').write(json.dumps({'scenario': name, 'sched': h}) + '\n')
    subprocess.run(['go', 'test', '-tags', 'verif', '-count=1', '-run', 'TestReplay', './fanout'], cwd='/verif/harness', env=env, capture_output=True)
    e2 = dict(os.environ, VERIF_TRACE=W + '/steps.ndjson')
    o = subprocess.run(['tlc', '-workers', '1', '-metadir', S + '/m2_%d' % k, '-config', 'steps.cfg', 'FanoutSteps.tla'], cwd=S, capture_output=True, text=True, env=e2).stdout
    m = re.search(r'depth of the complete state graph search is (\d+)', o)
    rows = [json.loads(l) for l in open(W + '/steps.ndjson')]
    depth = int(m.group(1)) if m else -1
    if 'rror' in o and not m: print(o[-1500:])
    if depth >= len(rows) + 1:
        print(k, 'explained', len(rows)); continue
    print(k, 'UNEXPLAINED at record', depth, 'of', len(rows), 'schedule', ' '.join(h))
    for i in range(max(1, depth - 3), min(len(rows), depth + 1)):
        r = rows[i]
        if r['e'] == 'step': print('  ', i + 1, r['p'], r['taken'], r['pc'], 'count', r['count'], 'mapped', r['mapped'], 'closed', r['closed'], r['qlen'], r['cflag'])
    break
