"""C11 - authorization holds on every entry point and follows the rights currently saved."""
import json, os, random
from vlib import Infra
LEVEL = "model_checking"


def run(ck):
    q = ck.quick()
    r = ck.tlc("auth", "Auth", "AuthEdges.cfg", timeout=900, label="edge cover of the reference monitor (user / token histories)")
    ck.model(r)
    edges = r.printed("@H")
    if len(edges) < 1000:
        raise Infra("edge cover produced %d behaviours" % len(edges))
    rnd = random.Random(ck.seed)
    rnd.shuffle(edges)
    total = len(edges)
    # histories ending with an update of u1 or a token event are the interesting ones: take them first
    edges.sort(key=lambda e: 0 if len(e["hist"]) >= 2 else 1)
    n = 160 if q else 1500
    pick = edges[:n]
    out = os.path.join(ck.tmp, "c11_out.json")
    ck.run_driver("./c11", "^TestDecisions$", {"VERIF_IN": ck.write_lines("c11_in.ndjson", pick), "VERIF_OUT": out}, timeout=3000)
    res = ck.read_result(out)
    if res["requests"] < 10 * min(len(pick), 20) or res["granted_expected"] < 20 or res["refused_expected"] < 20:
        if not res["mismatches"]:
            raise Infra("vacuous: %s" % {k: res[k] for k in ("histories", "requests", "granted_expected", "refused_expected")})
    ck.cov["traces_validated_against_impl"] += res["histories"]
    ck.cov["edge_cover"] = {"edges_total": total, "replayed": len(pick)}
    ck.cov["requests"] = res["requests"]
    ck.cov["requests_by_entry_point"] = res["by_entry"]
    ck.cov["granted_expected"], ck.cov["refused_expected"] = res["granted_expected"], res["refused_expected"]
    ck.count(res["requests"], ("h%d" % i for i in range(res["histories"])))
    for m in res["mismatches"] or []:
        rq = m["request"]
        want = "granted" if rq["grant"] else "refused"
        key = "C11:%s:%s:%s-should-be-%s" % (rq["e"], rq["c"], rq["u"], want)
        ck.violation(key, "after [%s]: %s as %s (credential %s) for %s: reference monitor says %s, server: %s" % (
            m["hist"], rq["e"], rq["u"], rq["c"], rq["p"], want, m["got"]), m)
    ck.sample({"history": pick[0]["hist"], "some_decisions": pick[0]["reqs"][:6]})
    # disclosed identifiers must not yield tokens
    out2 = os.path.join(ck.tmp, "c11_tok.json")
    ck.run_driver("./c11", "^TestTokenDerivation$", {"VERIF_OUT": out2})
    tk = ck.read_result(out2)
    ck.cov["token_derivation"] = {"session_id": tk["session_id"], "counter": tk["counter"]}
    if tk["derived_token_accepted"]:
        ck.violation("C11:token-derivable-from-disclosed-session-id", tk["derived_token_accepted"], tk)
    # the channel pairing as a design, with the two as-found variants as negative controls
    ck.model(ck.tlc("auth", "MCWspJoin", "WspFixed.cfg", label="WSP channel pairing: JOIN bound to user and path, session stored before INIT is answered"))
    for cfg, inv, label in (("WspNegBind.cfg", "OnlyOwnMedia", "as found before b6695a6: any socket naming an existing channel is attached"),
                            ("WspNegStore.cfg", "LegitimateJoinSucceeds", "as found before 54d8ff5: INIT answered before the session is stored")):
        neg = ck.tlc("auth", "MCWspJoin", cfg, must_pass=False, label="negative control: " + label)
        if inv not in neg.violated:
            raise Infra("negative control %s does not violate %s" % (cfg, inv))
    # a data socket must not be joinable to somebody else's WSP session through identifiers the server discloses
    out3 = os.path.join(ck.tmp, "c11_wsp.json")
    ck.run_driver("./c11", "^TestWspJoin$", {"VERIF_OUT": out3})
    wj = ck.read_result(out3)
    if not wj["victim_plays"]:
        raise Infra("WSP join leg: the victim's own session does not play")
    ck.cov["wsp_join"] = {"victim_channel": wj["victim_channel"], "attacker_channel": wj["attacker_channel"], "joins_answered_200": wj["joined"]}
    if wj["foreign_media"]:
        ck.violation("C11:wsp-data-channel-joins-another-user's-session", wj.get("how", ""), wj)
    # a WebSocket on a segment-shaped URL is bound to another stream than the one the segment rule authorises
    out4 = os.path.join(ck.tmp, "c11_wsts.json")
    ck.run_driver("./c11", "^TestWsSegmentPath$", {"VERIF_OUT": out4})
    ws = ck.read_result(out4)
    if not ws["own_stream_plays"]:
        raise Infra("segment-path leg: u3 cannot play its own stream")
    if ws["foreign"]:
        ck.violation("C11:websocket-on-segment-url-bound-to-another-stream", ws["foreign"], ws)
    # a path that climbs with '..' is authorised as the stream it resolves to
    out5 = os.path.join(ck.tmp, "c11_dd.json")
    ck.run_driver("./c11", "^TestDotDotPath$", {"VERIF_OUT": out5})
    dd = ck.read_result(out5)
    if dd["own"] != "granted":
        raise Infra("dot-dot leg: u4 cannot fetch the stream it has the right for (%s)" % dd["own"])
    for h in dd["hits"]:
        ck.violation("C11:dot-dot-path-authorised-as-written:" + h.split(" fetched ")[1].split(" ")[0], h, dd)
    # WSP sockets opened under a right that is then taken away; a socket path percent-encoded twice
    out6 = os.path.join(ck.tmp, "c11_stale.json")
    ck.run_driver("./c11", "^TestWspStaleRights$", {"VERIF_OUT": out6})
    sr = ck.read_result(out6)
    if not sr["sane"]:
        raise Infra("WSP stale-rights leg: u5 cannot play the stream it has the right for")
    for k in ("stale", "stale_join", "encoded"):
        if sr[k]:
            ck.violation("C11:wsp-%s" % k, sr[k], sr)
    ck.assumptions += ["entry points exercised: RTSP play / publish (Digest), RTSP-over-WebSocket play / publish, HTTP-FLV, WebSocket-FLV, HLS playlist, HLS segment, WSP (control + data socket), management API",
                       "paths /a/x, /b/y (pull) and /a/p, /b/p (push); rights from {'', *, /a/*, /b/*, /a/x} x {'', /a/*, /b/p}; u1 varies, adm and u2 are static",
                       "granted = media bytes / 200 / successful RECORD with the stream registered; refused = 401 or 403 (any other outcome is reported as an error and counts as a mismatch)"]

    # the management API (administrative delete / stop, listings, table edits, who may call what)
    from checks import api_common
    api_common.api_leg(ck, "C11")

META = {
    "text": "Auth.tla is the reference monitor of the statement over user create/update/delete, login, refresh and expiry; TLC builds the edge cover of its state graph (155 states, 5136 (state, operation) pairs) and emits with every behaviour the decision for every (entry point, user, credential kind, path). The driver replays a seeded sample of the behaviours on the in-process server with authentication on and issues the requests over ten real entry points, comparing granted/refused; a separate leg tries to derive tokens from the session id every RTSP response discloses, further legs join a WSP data socket of a user without rights to the session of a user who is playing (channel ids derived from the attacker's own), open WebSockets on segment-shaped URLs (/streams/{path}/{n}.ts), and fetch paths whose last segment is '..' under a single-level-wildcard right.",
    "note": "Trusted: TLC, Auth.tla as transcription of the statement, the scripted clients in harness/vclient and harness/c11.",
    "technique": "TLA+ reference monitor; TLC edge cover with per-state decision tables replayed against the real server's entry points",
    "specs": ["api", "auth"],
}
