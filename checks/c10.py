"""C10 - HLS playlist and segments are consistent, bounded and independently decodable.

Hls.tla is the segmenter, the playlist window, the segment store (pooled buffers / files) and concurrent readers at
the grain of the code; TLC checks the statement's clauses on it (window, key-frame start, exactly-once, bounded
storage, reader and playlist integrity), and the as-found variants (pooled segment buffer handed to readers, pooled
playlist buffer handed to callers, audio cut in mid GOP, fragment length 0) are negative controls that must violate
exactly the clause they are about.  Behaviours generated from the as-is model (class cover of the state graph and
long random walks: frames interleaved with playlist fetches, deliveries, segment opens and late reads) are replayed
on the real hls.SegmentGenerator / hls.Playlist fed by the real TS packetisers, in memory and disk mode; a second
driver writes the frames into a registered media.Stream of a running server while an HTTP client keeps fetching the
playlist (with a token) and every listed URI.  Everything observed from the outside goes into a trace that TLC
validates against HlsTrace.tla, which is the statement and nothing else.
"""
import json, os, random
from vlib import Infra
LEVEL = "model_checking"
KNOWN_KEY = "C10:segment-starts-with-a-non-key-frame:cut-at-twice-the-fragment-length"


def rows(r, F, mem):
    out = []
    for i, h in enumerate(r.printed("@H")):
        h["F"] = F
        h["mem"] = mem if mem is not None else (i % 2 == 0)
        out.append(h)
    return out


def run(ck):
    q = ck.quick()
    # ---- the design --------------------------------------------------------------------------------------
    for cfg, label in ((("HlsSegQ.cfg" if q else "HlsSeg.cfg"), "segmentation: every frame sequence up to the bound (kinds x time steps)"),
                       (("HlsReadQ.cfg" if q else "HlsRead.cfg"), "memory segments: frames interleaved with List / Deliver / Open / Read"),
                       (("HlsDiskQ.cfg" if q else "HlsDisk.cfg"), "disk segments: the same with files")):
        ck.model(ck.tlc("hls", "MCHls", cfg, timeout=3000, label=label))
    for cfg, inv, label in (("HlsNegAudio.cfg", "KeyStart", "as found (known finding): audio cuts at twice the fragment length in mid GOP"),
                            ("HlsNegPool.cfg", "ReaderIntegrity", "as found before 521c658: readers hold the pooled segment buffer"),
                            ("HlsNegM3u8.cfg", "PlaylistIntegrity", "as found before 66344a5: callers hold the pooled playlist buffer"),
                            ("HlsNegFrag0.cfg", "ExactlyOnce", "fragment length 0 (outside the configuration space): sub-100 ms segments are dropped with their frames")):
        neg = ck.tlc("hls", "MCHls", cfg, must_pass=False, timeout=900, label="negative control: " + label)
        if inv not in neg.violated:
            raise Infra("negative control %s does not violate %s (violated: %s)" % (cfg, inv, neg.violated))
    # ---- behaviours ----------------------------------------------------------------------------------------
    e = ck.tlc("hls", "MCHls", "HlsEdgesQ.cfg" if q else "HlsEdges.cfg", workers=1, timeout=3000, label="class cover of the as-is model's transitions")
    ck.model(e)
    edges = rows(e, 1, True)
    edges_disk = [dict(h, mem=False) for h in edges]
    n = 6 if q else 60
    s1 = rows(ck.tlc("hls", "MCHls", "HlsSim.cfg", workers=1, simulate="num=%d" % n, depth=51, seed=ck.seed, timeout=900, label="random walks, fragment 2 s, memory"), 2, True)
    s2 = rows(ck.tlc("hls", "MCHls", "HlsSimDisk.cfg", workers=1, simulate="num=%d" % n, depth=51, seed=ck.seed + 1, timeout=900, label="random walks, fragment 1 s, disk"), 1, False)
    s3 = rows(ck.tlc("hls", "MCHls", "HlsSimSrv.cfg", workers=1, simulate="num=%d" % (3 if q else 30), depth=61, seed=ck.seed + 2, timeout=900, label="random walks, fragment 5 s (server level)"), 5, None)
    s0 = rows(ck.tlc("hls", "MCHls", "HlsSimFrag0.cfg", workers=1, simulate="num=%d" % (6 if q else 40), depth=51, seed=ck.seed + 3, timeout=900, label="random walks, fragment 0 (package API only): sub-100 ms fragments dropped, numbers reused"), 0, None)
    if len(edges) < 300 or len(s1) < 20 or len(s2) < 20 or len(s3) < 10:
        raise Infra("generation produced %d/%d/%d/%d behaviours" % (len(edges), len(s1), len(s2), len(s3)))
    rnd = random.Random(ck.seed)
    if q:
        rnd.shuffle(edges_disk)
        edges_disk = edges_disk[:150]
    pk = edges + edges_disk + s1 + s2 + s3 + s0
    # ---- package level -----------------------------------------------------------------------------------------
    tr = os.path.join(ck.tmp, "c10.ndjson")
    o2 = os.path.join(ck.tmp, "c10_out.json")
    ck.run_driver("./c10", "^TestHls$", {"VERIF_IN": ck.write_lines("c10_in.ndjson", pk), "VERIF_OUT": tr, "VERIF_OUT2": o2}, timeout=3000)
    res = ck.read_result(o2)
    if res["behaviours"] != len(pk):
        raise Infra("driver consumed %d of %d behaviours" % (res["behaviours"], len(pk)))
    # ---- server level ------------------------------------------------------------------------------------------
    trs = os.path.join(ck.tmp, "c10s.ndjson")
    o3 = os.path.join(ck.tmp, "c10s_out.json")
    reps = 1 if q else 4
    ck.run_driver("./c10", "^TestHlsServer$", {"VERIF_IN": ck.write_lines("c10s_in.ndjson", s3 * reps), "VERIF_OUT": trs, "VERIF_OUT2": o3}, timeout=3000)
    res3 = ck.read_result(o3)
    if res3["fetched"] < 5 * len(s3):
        raise Infra("vacuous: the HTTP client fetched %d segments for %d behaviours" % (res3["fetched"], len(s3)))
    bad = []
    nrec = 0
    for path, what in ((tr, "package level"), (trs, "server level")):
        n_ = sum(1 for _ in open(path))
        nrec += n_
        rt = ck.tlc("hls", "HlsTrace", "HlsTrace.cfg", workers=1, env={"VERIF_TRACE": path}, label="acceptance of %d %s observations" % (n_, what), timeout=3000, heap="6g")
        if rt.distinct != n_ + 1:
            raise Infra("trace validation consumed %d of %d" % (rt.distinct - 1, n_))
        bad += rt.printed("@BAD")
    ck.cov["traces_validated_against_impl"] += res["behaviours"] + res3["behaviours"]
    ck.cov["behaviours"] = {"class_cover": len(edges), "class_cover_disk": len(edges_disk), "walks_memory": len(s1), "walks_disk": len(s2), "walks_server": len(s3) * reps, "walks_fragment0": len(s0)}
    ck.cov["observations"] = {"records": nrec, "playlists": res["lists"] + res3["lists"], "late_reads": res["reads"], "http_segments": res3["fetched"]}
    ck.cov["model_drift"] = len(res["drift"] or [])
    ck.cov["exhaustive"] = False
    ck.count(res["steps"], (json.dumps(h["hist"][-1]) + str(len(h["hist"])) for h in pk))
    if res3["stalled"]:
        ck.log("server level: %d behaviours did not reach the reference run's last segment within 5 s" % res3["stalled"])
    # ---- playlist requests in flight while segments are completed ----------------------------------------------
    of = os.path.join(ck.tmp, "c10_fresh.json")
    ck.run_driver("./c10", "^TestHlsFresh$", {"VERIF_OUT": of}, timeout=1200)
    resf = ck.read_result(of)
    if resf["playlists_checked"] < 1000 or resf["polled_meanwhile"] < 10000:
        raise Infra("vacuous freshness leg: %s" % {k: resf[k] for k in ("playlists_checked", "polled_meanwhile")})
    ck.cov["freshness_leg"] = {k: resf[k] for k in ("playlists_checked", "polled_meanwhile")}
    for f in resf["findings"][:3]:
        kind = "listed-segment-does-not-resolve" if "does not resolve" in f["what"] else "playlist-served-beside-other-requests-is-not-the-current-one"
        ck.violation("C10:%s:%s" % (kind, f["mode"]), "%s storage, after frame %d, token %r: %s" % (f["mode"], f["after_frame"], f["token"], f["what"]), f)
    # ---- a rollover attempted inside a segment fetch (gate hls.seg.found): Open is one critical section in Hls.tla ----
    oo = os.path.join(ck.tmp, "c10_openrace.json")
    ck.run_driver("./c10", "^TestHlsOpenRace$", {"VERIF_OUT": oo}, timeout=600)
    reso = ck.read_result(oo)
    if reso["forced"] < 20:
        raise Infra("vacuous open-race leg: the gate hls.seg.found fired %d times" % reso["forced"])
    ck.cov["open_race_leg"] = {k: reso[k] for k in ("forced", "rollover_blocked_by_reader", "rollover_completed_inside_fetch")}
    for f in reso["findings"][:3]:
        ck.violation("C10:segment-fetch-racing-rollover:%s" % f["mode"], "%s storage, round %d, segment %d: %s" % (f["mode"], f["round"], f["seq"], f["what"]), f)
    # ---- a path taken over while the replaced stream is still open (C05), both publishing ---------------------
    orp = os.path.join(ck.tmp, "c10_replaced.json")
    ck.run_driver("./c10", "^TestHlsReplaced$", {"VERIF_OUT": orp}, timeout=600)
    resr = ck.read_result(orp)
    if resr["segments_fetched"] < 4 and not resr["findings"]:
        raise Infra("vacuous replaced-stream leg: %d segments fetched" % resr["segments_fetched"])
    ck.cov["replaced_stream_leg_segments"] = resr["segments_fetched"]
    for f in resr["findings"][:3]:
        ck.violation("C10:path-taken-over:%s:%s" % (f["mode"], f["what"].split(":")[0]), "%s storage, a path taken over while the replaced stream stays open, segment %d: %s" % (f["mode"], f["seq"], f["what"]), f)
    seen = set()
    for b in bad:
        if b["why"] in seen:
            continue
        seen.add(b["why"])
        ck.violation(b["why"], "%s: %s" % (b["why"], json.dumps(b["ev"])[:400]), b)
    for d in (res["drift"] or [])[:3]:
        ck.log("model drift (not a verdict): behaviour %d step %d: model %s, code %s" % (d["t"], d["step"], d["want"], d["got"]))
    ck.sample({"behaviour": [(s["op"], s["args"]) for s in s1[0]["hist"][:14]]})
    with open(tr) as f:
        ck.sample({"first_records": [json.loads(next(f)) for _ in range(5)]})
    ck.assumptions += ["behaviours start at source times 0, 2^33 - 5 s, 2^63/10^9 - 3 s and nine days (90 kHz ticks, rounded to multiples of 9 so that the nanosecond times are exact); the generator's open segment is given that start through the verif-only export VerifStartAt instead of streaming for that long",
                       "one model tick is one second; frame times are whole seconds, so the 100 ms thresholds (minimum segment, audio delay) are 'below one tick'",
                       "input assumption: a non-key video frame follows the previous video frame within two fragment lengths (video restarts with a key frame after an audio-only gap); time stamps never go backwards",
                       "audio PTS inside HLS segments is compared with a 100 ms tolerance: hlsAacJitter re-stamps AAC on purpose",
                       "freshness of the window is a verdict in disk mode (the open file's number is visible) and at quiescence over HTTP; in memory mode it is covered by the model-drift comparison only",
                       "fragment length 0 is outside the configuration space (config clamps hlsfragment to >= 5) but reachable through the package API: there the exactly-once clause is relaxed to 'no duplicate, no reordering, no loss inside a segment', because dropping sub-100 ms fragments with their frames is the documented mechanism",
                       "stream replacement while a disk-mode stream of the same path still owns files with the same names is not exercised"]


META = {
    "text": "Hls.tla models segmenter, playlist window, pooled / file segment store and readers; TLC checks WindowOK, KeyStart, ExactlyOnce, Bounded, ReaderIntegrity, PlaylistIntegrity exhaustively over all frame sequences up to 8-10 frames (3 kinds x time steps) with up to 3 reader operations, memory and disk; four negative controls (mid-GOP audio cut, pooled segment buffer, pooled playlist buffer, fragment 0) must each violate their clause. A class cover of the as-is model's transitions (500-700 behaviours) plus random walks of 50-60 steps (fragment 1, 2 and 5 s) are replayed on the real hls package through the real TS packetisers in memory and disk mode, and on a registered media.Stream of a running server with a concurrent HTTP client (token playlist + every listed URI); an independent playlist parser and TS demultiplexer turn what is served into records that TLC validates against HlsTrace.tla (three consecutive entries, media sequence, target duration, token and path in every URI, every URI resolves, segment bytes never change for a sequence number - late reads after rollover and HTTP fetches included -, valid TS, key-frame start with SPS/PPS, frames exactly once across segments, only the last three resolve, files = window + open one, nothing left after close).",
    "note": "Known finding: an audio frame cuts the segment at twice the fragment length even in mid GOP, so with audio and a GOP longer than 2 x hlsfragment the next segment starts with a non-key frame. Trusted: TLC, HlsTrace.tla, the playlist parser in harness/c10 and the demultiplexer in harness/tsdemux.",
    "technique": "TLA+ model of segmenter/playlist/store/readers checked by TLC (with negative controls); TLC-generated behaviours replayed on the real hls package and a live server; TLC trace validation of the observations against a property-level TLA+ acceptor",
    "specs": ["hls"],
}
