"""Scenarios shared by C01-C04: each is a configuration of spec/fanout/MCFanout.tla (constants) and,
identically, of the Go driver harness/fanout (Scenario struct).  FIX reflects the code as it is
in /repo now (which 'fix:' commits are in); the checks do not read it from the code - if the code
and the switches disagree the step-level validation reports model drift."""

FIX = {"FixWake": True, "FixAttach": True, "FixCount": True, "FixJoin": True}

PKTS = {"SKN": ["sps", "key", "non"], "KN": ["key", "non"], "K": ["key"], "SPKNK": ["sps", "pps", "key", "non", "key"],
        "KAN": ["key", "aud", "non"], "KNKN": ["key", "non", "key", "non"], "KNNKNNK": ["key", "non", "non", "key", "non", "non", "key"],
        "VSPKN": ["vps", "sps", "pps", "key", "non"], "K4": ["key", "non", "non"] * 4 + ["key"], "MVAKN": ["meta", "vsh", "ash", "key", "non"],
        "MVKAK": ["meta", "vsh", "key", "aud", "key"], "VKNA": ["vsh", "key", "non", "aud"], "VKK": ["vsh", "key", "key"],
        "KNSPN": ["key", "non", "sps", "pps", "non"]}

def S(name, cons, pkts, cachegop=True, maxq=1000, stoppers=(), closer=False, panics=(), media="h264", closepanics=False, replace=False, simonly=False):
    return {"name": name, "media": media, "closepanics": closepanics, "replace": replace, "simonly": simonly, "cons": list(cons), "pkts_name": pkts, "pkts": PKTS[pkts], "cachegop": cachegop, "maxq": maxq,
            "stoppers": list(stoppers), "closer": closer, "panics": list(panics)}

SCENARIOS = {s["name"]: s for s in [
    S("deliver2", ["c1", "c2"], "SKN"),
    S("gop1", ["c1"], "SPKNK"),
    S("audio1", ["c1"], "KAN"),
    S("nocache1", ["c1"], "SKN", cachegop=False),
    S("close2", ["c1", "c2"], "K", closer=True),
    S("stop2", ["c1", "c2"], "KN", stoppers=["c1"]),
    S("stopclose1", ["c1"], "K", stoppers=["c1"], closer=True),
    S("panic2", ["c1", "c2"], "KN", panics=["c1"]),
    S("backlog1", ["c1"], "KNNKNNK", maxq=1),
    S("hevc1", ["c1"], "VSPKN", media="h265"),
    S("hevc2", ["c1", "c2"], "KN", media="h265"),
    S("flv1", ["c1"], "MVAKN", media="flv"),
    S("flvaud1", ["c1"], "MVKAK", media="flv"),
    S("flv2", ["c1", "c2"], "VKNA", media="flv"),
    S("flvclose2", ["c1", "c2"], "K", media="flv", closer=True),
    S("flvnocache1", ["c1"], "MVAKN", media="flv", cachegop=False),
    S("flvstamp2", ["c1", "c2"], "VKK", media="flv"),
    S("stop3", ["c1", "c2", "c3"], "KNKN", stoppers=["c1"], simonly=True),
    S("backlogclose1", ["c1"], "KNNKNNK", maxq=1, closer=True),
    S("backlogstop1", ["c1"], "KNNKNNK", maxq=1, stoppers=["c1"]),
    S("backlog2", ["c1", "c2"], "KNNKNNK", maxq=1, simonly=True),
    S("backlogjoin1", ["c1"], "K4", maxq=1, simonly=True),
    S("panicclose2", ["c1", "c2"], "KN", panics=["c1"], closepanics=True),
    S("replace2", ["c1", "c2"], "K", closer=True, replace=True),
    S("gopsps1", ["c1"], "KNSPN"),   # parameter sets repeated in-band in the middle of a GOP (seed C02-6)
]}

def tla_set(xs):
    return "{" + ", ".join('"%s"' % x for x in xs) + "}"

def cfg(sc, mode, fix=None, invariants=(), emit="none", steps=False):
    """mode: 'check' | 'edges' | 'final' | 'steps'"""
    f = dict(FIX)
    if fix:
        f.update(fix)
    lines = ["CONSTANTS",
             ' Media = "%s"' % sc["media"],
             " Cons = %s" % tla_set(sc["cons"]),
             " Pkts <- Pkts%s" % sc["pkts_name"],
             " CacheGop = %s" % ("TRUE" if sc["cachegop"] else "FALSE"),
             " MaxQ = %d" % sc["maxq"],
             " Stoppers = %s" % tla_set(sc["stoppers"]),
             " WithCloser = %s" % ("TRUE" if sc["closer"] else "FALSE"),
             " Panics = %s" % tla_set(sc["panics"]),
             " ClosePanics = %s" % ("TRUE" if sc.get("closepanics") else "FALSE")]
    for k in ("FixWake", "FixAttach", "FixCount", "FixJoin"):
        lines.append(" %s = %s" % (k, "TRUE" if f[k] else "FALSE"))
    lines.append(" Replace = %s" % ("TRUE" if sc.get("replace") else "FALSE"))
    lines.append(" ReplayVideoOnly = TRUE")
    lines.append(' EmitMode = "%s"' % emit)
    if steps:
        lines += ["INIT StepsInit", "NEXT StepsNext", "VIEW StepsView"]
    else:
        lines += ["INIT %s" % ("InitR" if emit == "racy1" else "Init"), "NEXT Next", "VIEW View"]
        if invariants:
            lines.append("INVARIANTS " + " ".join(invariants))
        if emit in ("edges", "racy", "racy1"):
            lines.append("ACTION_CONSTRAINT EmitEdge")
        if emit == "final":
            lines.append("INVARIANTS EmitFinal")
    lines.append("CHECK_DEADLOCK FALSE")
    return "\n".join(lines) + "\n"
