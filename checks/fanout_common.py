"""Shared machinery of C01-C04 (stream fan-out): see spec/fanout/*.tla and harness/fanout.

For every scenario (checks/fanout_scenarios.py):
  1. TLC checks the implementation-level model (Fanout.tla with the Fix* switches describing the code as it
     is now) against the property-level invariants (FanoutProp via MCFanout) - exhaustively.
  2. TLC produces schedules: random complete behaviours (-simulate), a seeded sample of the edge cover
     (one shortest schedule per explored transition), and the counterexamples of the model with each fix
     switched off ("dangerous" schedules - negative controls that also show the invariants are not vacuous).
  3. The Go driver replays every schedule on the real media.Stream under the gate scheduler.
  4. TLC validates the recorded API-level traces against the property-level specification (FanoutTrace.tla):
     every @BAD line is an observation of the real code the property forbids -> VIOLATION.
  5. TLC validates the recorded step traces against Fanout.tla (FanoutSteps.tla): unexplained executions
     are model drift (reported, never a verdict).
"""
import json, os, random
from concurrent.futures import ThreadPoolExecutor
from vlib import Infra
from checks import fanout_scenarios as fs

# quick tier: each negative control runs on the smallest scenario that exhibits the defect
NEG_QUICK = {"FixWake": ("stopclose1", "panic2"), "FixAttach": ("stopclose1",), "FixCount": ("stopclose1",), "FixJoin": ("nocache1", "backlog1")}
INVS = ["Delivery", "Complete", "CountNonNegative", "Released", "OnlyTheStopped", "PublisherNeverBlocked", "LockHolderMoves", "DropsAligned", "Backlog"]


def gen_for(ck, sc, nsim, nedges, thorough):
    name = sc["name"]
    out = {"name": name, "scheds": [], "danger": [], "states": 0, "trans": 0, "neg": {}}
    # 1. exhaustive check of the model of the current code (scenarios marked simonly are too large for the
    #    quick tier: there the invariants are evaluated on the simulated behaviours only)
    out["model_ok"], out["model_violated"] = True, []
    r = None
    if not sc.get("simonly"):
        r = ck.tlc("fanout", "MCFanout", "m.cfg", files={"m.cfg": fs.cfg(sc, "check", invariants=INVS)}, workers=2,
                   timeout=3000, label="model check %s" % name, must_pass=False)
    elif thorough:
        # the scenarios too large for the quick tier get a bounded attempt: not finishing is recorded, not an error
        try:
            r = ck.tlc("fanout", "MCFanout", "m.cfg", files={"m.cfg": fs.cfg(sc, "check", invariants=INVS)}, workers=4,
                       timeout=1200, label="model check %s (bounded attempt)" % name, must_pass=False)
        except Infra as ex:
            ck.log("model check of %s did not finish within 20 minutes: invariants evaluated on simulated behaviours only" % name)
    if r is not None:
        out["model_ok"] = not (r.violated or r.error)
        out["model_violated"] = r.violated
        out["states"], out["trans"] = r.distinct, r.generated
        if r.violated:
            h = r.last_seq("hist")
            if h:
                out["danger"].append(("current:" + r.violated[0], h))
        elif r.error:
            raise Infra("TLC error on %s:\n%s" % (name, r.out[-2000:]))
    # 2a. simulation: complete random behaviours
    rs = ck.tlc("fanout", "MCFanout", "s.cfg", files={"s.cfg": fs.cfg(sc, "final", emit="final")}, simulate="num=%d" % nsim,
                depth=120, timeout=600, label="simulate %s" % name)
    seen = set()
    for h in rs.printed("@S"):
        k = tuple(h)
        if k not in seen:
            seen.add(k)
            out["scheds"].append(h)
    # 2a'. behaviours of the model with every fix switched off: they walk through exactly the windows the fixes
    #      close (a joiner between cache update and broadcast, a Remove between Load and Delete ...), which the
    #      model of the fixed code never schedules.  On the fixed code the steps that are no longer possible are skipped.
    off = {k: False for k in fs.FIX}
    ra = ck.tlc("fanout", "MCFanout", "a.cfg", files={"a.cfg": fs.cfg(sc, "final", fix=off, emit="final")}, simulate="num=%d" % max(20, nsim // 2),
                depth=120, timeout=600, label="simulate %s (model of the code as found)" % name, seed=ck.seed + 1000)
    for h in ra.printed("@S"):
        k = tuple(h)
        if k not in seen:
            seen.add(k)
            out["scheds"].append(h)
    # 2b. edge cover sample
    # 2b. edge cover, stratified: one shortest schedule per explored transition is printed by TLC together with the
    #     transition's class (where every process is parked afterwards, who moved, packet kind, capped queue
    #     lengths, flags); per class a seeded sample is replayed.  quick: transitions taken while >= 3 processes are
    #     in the middle of an operation ("racy"), 1 per class; thorough: all transitions, several per class.
    if nedges and not sc.get("simonly"):
        # thorough: every racy transition (several per class); printing every transition of the graph ("edges") takes
        # gigabytes per scenario and was given up after a first full run did not finish
        mode = "racy" if thorough else "racy1"
        re_ = ck.tlc("fanout", "MCFanout", "e.cfg", files={"e.cfg": fs.cfg(sc, "edges", emit=mode)},
                     workers=(2 if thorough else 1), timeout=3000, label="edge cover (%s) %s" % (mode, name))
        rnd = random.Random(ck.seed * 7919 + len(name))
        classes = {}
        total = 0
        for e in re_.printed("@E"):
            total += 1
            classes.setdefault(e["k"] if e["k"] != "first" else "first%d" % total, []).append(e["h"])
        out["edges_total"], out["edge_classes"] = total, len(classes)
        per = 4 if thorough else 1
        picked = []
        for k in sorted(classes):
            hs = classes[k]
            rnd.shuffle(hs)
            picked += hs[:per]
        rnd.shuffle(picked)
        for h in picked[:nedges]:
            k = tuple(h)
            if k not in seen:
                seen.add(k)
                out["scheds"].append(h)
    # 2c. negative controls: the model with one fix switched off must violate an invariant; its counterexample is replayed
    for fix in ("FixWake", "FixAttach", "FixCount", "FixJoin"):
        if not fs.FIX[fix] or (not thorough and name not in NEG_QUICK.get(fix, ())) or (thorough and sc.get("simonly")):
            continue
        try:
            rn = ck.tlc("fanout", "MCFanout", "n.cfg", files={"n.cfg": fs.cfg(sc, "check", fix={fix: False}, invariants=INVS)}, workers=2,
                        timeout=900, label="negative control %s without %s" % (name, fix), must_pass=False)
        except Infra:
            if name in NEG_QUICK.get(fix, ()):
                raise      # the scenarios chosen to exhibit the defect must do so
            ck.log("negative control %s without %s: no violation found within 15 minutes (the scenario need not exhibit this defect)" % (name, fix))
            continue
        out["neg"][fix] = rn.violated[:1]
        if rn.violated:
            h = rn.last_seq("hist")
            if h:
                out["danger"].append(("%s-off:%s" % (fix, rn.violated[0]), h))
    return out


def run_family(ck, prop, scen_names, clause_tags, nsim, nedges):
    """prop: 'C01'..; clause_tags: substrings of @BAD clauses that belong to this property"""
    scs = [fs.SCENARIOS[n] for n in scen_names]
    t0 = __import__("time").time()
    with ThreadPoolExecutor(max_workers=8) as ex:
        gens = list(ex.map(lambda sc: gen_for(ck, sc, nsim, nedges, not ck.quick()), scs))
    ck.cov["phase_s"] = {"tlc_generate": round(__import__("time").time() - t0, 1)}
    lines, total = [], 0
    for g in gens:
        ck.cov["states"] += g["states"]
        ck.cov["transitions"] += g["trans"]
        hs = g["scheds"]
        if not ck.quick() and len(hs) > 2500:
            # the thorough tier replays at most 2500 generated schedules per scenario (a seeded sample): the first
            # full run, with everything, did not get through the single-threaded replay in 50 minutes
            rnd = random.Random(ck.seed * 104729 + len(g["name"]))
            hs = list(hs)
            rnd.shuffle(hs)
            hs = hs[:2500]
        g["replayed"] = len(hs)
        for h in hs:
            lines.append({"scenario": g["name"], "sched": h, "kind": "gen"})
        for why, h in g["danger"]:
            lines.append({"scenario": g["name"], "sched": h, "kind": "danger:" + why})
        if not g["model_ok"]:
            ck.notes.append("model of the current code violates %s in scenario %s (replayed on the real code below)" % (g["model_violated"], g["name"]))
    ck.cov["scenarios"] = {g["name"]: {"states": g["states"], "schedules": len(g["scheds"]), "schedules_replayed": g.get("replayed", len(g["scheds"])), "edges_total": g.get("edges_total", 0), "edge_classes": g.get("edge_classes", 0), "dangerous": [w for w, _ in g["danger"]],
                                        "negative_controls": g["neg"], "model_ok": g["model_ok"]} for g in gens}
    if not lines:
        raise Infra("no schedules generated")
    tmp = ck.tmp
    api, steps, outp = (os.path.join(tmp, x) for x in ("api.ndjson", "steps.ndjson", "replay_out.json"))
    try:
        ck.run_driver("./fanout", "^TestReplay$", {"VERIF_SCENARIOS": ck.write_lines("scen.ndjson", [{k: v for k, v in sc.items() if k not in ("pkts_name", "simonly")} for sc in scs]),
                                                   "VERIF_IN": ck.write_lines("scheds.ndjson", lines),
                                                   "VERIF_OUT_API": api, "VERIF_OUT_STEPS": steps, "VERIF_OUT": outp}, timeout=3000)
    except Infra:
        if os.path.exists(outp + ".hang"):  # the driver's watchdog: keep the schedule and the stacks for diagnosis
            os.makedirs("/tmp/verif_diag", exist_ok=True)
            dst = "/tmp/verif_diag/%s_replay_hang.txt" % ck.pid
            __import__("shutil").copy(outp + ".hang", dst)
            raise Infra("a replayed schedule did not finish within 90 s; schedule and goroutine stacks kept in %s: %s" % (dst, open(dst).readline()[:600]))
        raise
    ck.cov["phase_s"]["go_replay"] = round(__import__("time").time() - t0 - ck.cov["phase_s"]["tlc_generate"], 1)
    res = ck.read_result(outp)
    if res["runs"] != len(lines):
        raise Infra("driver replayed %d of %d schedules" % (res["runs"], len(lines)))
    if res["taken"] == 0:
        raise Infra("dead driver: no schedule step could be taken (hooks not firing?)")
    ck.cov["traces_validated_against_impl"] += res["runs"]
    ck.cov["schedule_steps_taken"] = res["taken"]
    ck.cov["schedule_steps_skipped"] = res["skipped"]
    ck.count(res["runs"], (json.dumps(l["sched"]) + l["scenario"] for l in lines))
    # 4. property-level validation of everything, one TLC run
    napi = sum(1 for _ in open(api))
    rt = ck.tlc("fanout", "FanoutTrace", "FanoutTrace.cfg", workers=1, env={"VERIF_TRACE": api}, timeout=1800,
                label="property-level trace validation (%d events)" % napi, must_pass=False)
    if rt.error or rt.distinct != napi + 1:
        raise Infra("trace validation did not consume the trace (%d of %d)\n%s" % (rt.distinct - 1, napi, rt.out[-3000:]))
    bad = rt.printed("@BAD")
    begins = {}
    for ln in open(api):
        e = json.loads(ln)
        if e["e"] == "begin":
            begins[e["t"]] = e
    for b in bad:
        clauses = [b["clause"]] if b["clause"] != "final" else list(b["info"]["problems"])
        b0 = begins.get(b["t"], {})
        for cl in clauses:
            if not any(t in cl for t in clause_tags):
                continue
            key = "%s:%s:%s" % (prop, cl, b0.get("name"))
            ck.violation(key, "scenario %s, schedule %s: %s %s" % (b0.get("name"), " ".join(b0.get("sched", [])), cl, json.dumps(b["info"])[:600]),
                         {"scenario": b0, "bad": b})
    ck.cov["rejected_events"] = len(bad)
    # 5. implementation-level validation per scenario
    by = {}
    cur = None
    for ln in open(steps):
        e = json.loads(ln)
        if e["e"] == "begin":
            cur = e["name"]
        by.setdefault(cur, []).append(ln)

    def steps_for(sc):
        p = os.path.join(tmp, "steps_%s.ndjson" % sc["name"])
        with open(p, "w") as f:
            f.writelines(by.get(sc["name"], []))
        n = len(by.get(sc["name"], []))
        r = ck.tlc("fanout", "FanoutSteps", "t.cfg", gcthreads=2, heap="3g", files={"t.cfg": fs.cfg(sc, "steps", steps=True)}, workers=2, env={"VERIF_TRACE": p},
                   timeout=1800, label="step-level trace validation %s (%d records)" % (sc["name"], n), must_pass=False)
        if r.error:
            raise Infra("step validation failed for %s:\n%s" % (sc["name"], r.out[-3000:]))
        oks = set(r.printed("@OK"))
        execs = sum(1 for ln in by.get(sc["name"], []) if '"e":"begin"' in ln)
        return sc["name"], execs, len(oks)
    with ThreadPoolExecutor(max_workers=4) as ex:
        for name, execs, oks in ex.map(steps_for, scs):
            ck.cov["model_drift"] += execs - oks
            ck.cov["scenarios"][name]["executions"] = execs
            ck.cov["scenarios"][name]["explained_by_model"] = oks
    if lines:
        ck.sample({"scenario": lines[0]["scenario"], "schedule": lines[0]["sched"]})
        ck.sample({"scenario": lines[-1]["scenario"], "schedule": lines[-1]["sched"], "kind": lines[-1]["kind"]})
    with open(api) as f:
        ck.sample({"first_trace_events": [json.loads(next(f)) for _ in range(8)]})
    return gens
