"""C07 - malformed media input is contained and never stops conversion of later good data.

Contain.tla is the containment design: a stream's packets pass independent stages (relay, RTP demuxer, FLV muxer,
TS muxer; the last three are goroutines behind queues) and a malformed item makes the stage that parses it fail.
With the failure caught around the single item (the repository after the fix) TLC shows Survives, GoodConverted and
NoGoroutineGivesUp for every interleaving of two streams; with the goroutine-level recover as found ("once") good
items queued later are never converted, with no recover the process dies - both are negative controls.
FaultCases.tla / HostileCases.tla enumerate the malformed inputs; the drivers inject them into an otherwise valid
stream (before any good packet, in mid stream, as a burst) next to a second healthy stream, into media.NewStream as
SDP, and into live RTSP publishing sessions, and record what comes out afterwards; TLC validates the records
against ContainTrace.tla.  A crash of the driver process itself is a verdict too (named by the case in progress).
"""
import json, os
from vlib import Infra
LEVEL = "model_checking"


def driver(ck, test, rows, name, timeout=240):
    """runs a driver that may be killed by the code under test; returns (trace path, result dict) or reports the crash"""
    tr = os.path.join(ck.tmp, name + ".ndjson")
    o2 = os.path.join(ck.tmp, name + "_out.json")
    prog = os.path.join(ck.tmp, name + "_progress.json")
    rc, out, wall = ck.go_test("./c07", test, env={"VERIF_IN": ck.write_lines(name + "_in.ndjson", rows), "VERIF_OUT": tr, "VERIF_OUT2": o2,
                                                    "VERIF_PROGRESS": prog, "GOFLAGS": "-mod=mod"}, timeout=timeout)
    if rc != 0:
        case = open(prog).read() if os.path.exists(prog) else "?"
        if "panic:" in out or "fatal error:" in out or "test timed out" in out:
            what = "process crashed" if "test timed out" not in out else "driver hung (a call into the server never returned)"
            lines = [l for l in out.splitlines() if l.startswith("panic:") or l.startswith("fatal error:") or "test timed out" in l][:2]
            ck.violation("C07:%s:%s" % (what.split()[0], case), "%s while case %s was in progress: %s" % (what, case, " | ".join(lines)), {"case": case, "output_tail": out[-3000:]})
            return None, None
        raise Infra("driver %s failed:\n%s" % (test, out[-2000:]))
    return tr, ck.read_result(o2)


def run(ck):
    q = ck.quick()
    ck.model(ck.tlc("contain", "Contain", "Contain_item.cfg", timeout=1800, label="failure caught around the single item: two streams, every input up to 4 items each"))
    for cfg, inv, label in (("Contain_once.cfg", "GoodConverted", "as found before c27aacc: the converter goroutine's deferred recover ends the goroutine"),
                            ("Contain_none.cfg", "Survives", "no recover at all")):
        neg = ck.tlc("contain", "Contain", cfg, must_pass=False, timeout=900, label="negative control: " + label)
        if inv not in neg.violated:
            raise Infra("negative control %s does not violate %s (violated: %s)" % (cfg, inv, neg.violated))
    rf = ck.tlc("contain", "FaultCases", "FaultCases.cfg", timeout=900, label="malformed packet cases")
    ck.model(rf)
    faults = rf.printed("@F")
    rh = ck.tlc("contain", "HostileCases", "HostileCases.cfg", timeout=900, label="hostile SDP / connection cases")
    ck.model(rh)
    hostile = rh.printed("@H")
    if len(faults) < 600 or len(hostile) < 35:
        raise Infra("case generation produced %d/%d" % (len(faults), len(hostile)))
    reps = 1 if q else 5
    traces, injected, crashed = [], 0, False
    for k in range(reps):
        tr, res = driver(ck, "^TestContain$", faults, "c07_%d" % k)
        if not tr:
            crashed = True
        if tr:
            traces.append(tr)
            injected += res["injected"]
            if res["cases"] != len(faults):
                raise Infra("driver consumed %d of %d cases" % (res["cases"], len(faults)))
    tr, res = driver(ck, "^TestHostile$", hostile, "c07h")
    if tr:
        traces.append(tr)
    bad, nrec = [], 0
    for path in traces:
        n = sum(1 for _ in open(path))
        nrec += n
        rt = ck.tlc("contain", "ContainTrace", "ContainTrace.cfg", workers=1, env={"VERIF_TRACE": path}, label="acceptance of %d observations" % n, timeout=3000)
        if rt.distinct != n + 1:
            raise Infra("trace validation consumed %d of %d" % (rt.distinct - 1, n))
        bad += rt.printed("@BAD")
    if traces and injected < 3000 * reps and not bad and not crashed:
        raise Infra("vacuous: only %d malformed packets injected" % injected)
    ck.cov["traces_validated_against_impl"] += (len(faults) * reps + len(hostile))
    ck.cov["cases"] = {"packet_fault_cases": len(faults), "repetitions": reps, "malformed_packets_injected": injected, "hostile_cases": len(hostile), "records": nrec}
    ck.cov["exhaustive"] = True
    ck.count(len(faults) * reps + len(hostile), (json.dumps(c, sort_keys=True) for c in faults + hostile))
    seen = set()
    for b in bad:
        ev = b["ev"]
        cs = ev.get("case", {})
        key = "%s:%s" % (b["why"], json.dumps({k: cs.get(k) for k in ("codec", "target", "fault")}) if cs else ev.get("class", ""))
        if key in seen or len(seen) > 40:
            continue
        seen.add(key)
        ck.violation(key, "%s: %s" % (b["why"], json.dumps(ev)[:500]), b)
    ck.sample({"fault_case": faults[0], "hostile_case": hostile[0]})
    if traces:
        with open(traces[0]) as f:
            ck.sample({"first_record": json.loads(next(f))})
    ck.assumptions += ["at the media level a malformed packet is one the session layer lets through (rtp.ReadPacket accepts its RTP header); frames it cannot use (unknown channel, empty, header too short) are sent over a live publishing connection in the session leg, after which the stream must go on relaying",
                       "random RTCP bytes that happen to form a well-formed sender report (PT 200, 20 bytes or more) are excluded: a report with an arbitrary clock is not malformed; its effect on presentation times is the C06 known finding",
                       "HLS after the injection is judged on H.264 streams (the server produces HLS for H.264 + AAC only); good groups of pictures are 6 s apart so that every key frame closes a segment",
                       "what a depacketiser emits for the malformed packet itself (nothing, or a unit that C06 would reject) is not judged here, only the good data that follows",
                       "pulled-camera input reaches the same media.Stream entry points (WriteRtpPacket, NewStream); the pull client's own protocol handling is C20"]


META = {
    "text": "Contain.tla: two streams x every input of up to 4 good / malformed items x every interleaving of publisher and the three converter goroutines; per-item recovery satisfies Survives / GoodConverted / NoGoroutineGivesUp, the as-found goroutine-level recovery and no recovery are negative controls. FaultCases.tla: 312 cases (H.264 / H.265 x video, audio, video RTCP, audio RTCP x fault: empty payload, NAL header only for every packet type, aggregation size beyond / zero / trailing byte / truncated at every length, fragment header only / start without payload / end without start / truncated at every length, single unit truncated at every length, byte flips in every header byte, 65000-byte unit, AU-header length zero / odd / beyond, AU size beyond / zero, 255 AUs, truncated sender reports at every length, RR, BYE, random, RTP padding / extension / CSRC beyond the packet x placed first / in mid stream / as a burst) = 3400 malformed packets per pass; HostileCases.tla: 27 SDP classes and 12 connection classes. Observed from outside: RTP relay, FLV tags and HLS segment content for every good packet after the injection, a second stream, publisher-side panics, goroutines left after close, server and other sessions alive; validated by TLC against ContainTrace.tla. A crash or hang of the driver process is reported with the case in progress.",
    "note": "Four genuine defects were repaired (converter goroutines, GOP cache bounds, join lock release; see KNOWN_FINDINGS.json). Trusted: TLC, ContainTrace.tla, the recording consumers and harness/tsdemux.",
    "technique": "TLA+ model of stage-wise containment checked by TLC with negative controls; TLA+ enumeration of the fault space; faults injected into the real pipeline / server; TLC trace validation against a TLA+ acceptor",
    "specs": ["contain"],
}
