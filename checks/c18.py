"""C18 - users and routes survive edits, reloads and crashes intact.

In-memory half: UserTable.tla / RouteTable.tla histories (save, delete, flush, restart) replayed
on provider/auth and provider/route with the real JSON providers, table compared after every step.
Crash half: Durable.tla models the file-system steps of a flush and a crash after each; for each
crash point x history a child process is killed (SIGKILL) at the corresponding hook in
utils/io.go:EncodeJSONFile and the parent checks that a restart loads the previous or the new table.
"""
import os
from vlib import Infra
from checks.c17 import histories, replay
LEVEL = "model_checking"


def run(ck):
    q = ck.quick()
    urows, urows2 = histories(ck, "tables", "UserTable", "User2.cfg" if q else "User3.cfg", "UserSim.cfg", 40 if q else 300, 12,
                                "UserDeep4.cfg" if q else "UserDeep5.cfg")
    replay(ck, urows + urows2, "TestUsers", "C18:user", "user")
    rrows, rrows2 = histories(ck, "tables", "RouteTable", "Route2.cfg", "RouteSim.cfg", 40 if q else 200, 12,
                                "RouteDeep5.cfg" if q else "RouteDeep6.cfg")
    replay(ck, rrows + rrows2, "TestRoutes", "C18:route", "route")
    ck.cov["exhaustive"] = True

    # crash half -----------------------------------------------------------------
    neg = ck.tlc("tables", "Durable", "DurableInPlace.cfg", workers=1, must_pass=False, label="negative control: in-place flush violates Intact")
    if "Intact" not in neg.violated:
        raise Infra("negative control failed: TLC did not find the Intact violation of the in-place step sequence")
    d = ck.tlc("tables", "Durable", "DurableAtomic.cfg", workers=1, label="crash model (write temp, sync, close, rename)")
    ck.model(d)
    plans = d.printed("@K")
    if len(plans) < 6:
        raise Infra("crash model produced %d plans" % len(plans))
    nh = 8 if q else 60
    step = max(1, len(urows2) // nh)
    uh = urows2[::step][:nh] + urows[::max(1, len(urows) // nh)][:nh]
    rh = (rrows2[::max(1, len(rrows2) // nh)][:nh // 2]) + rrows[::max(1, len(rrows) // nh)][:nh // 2]
    out = os.path.join(ck.tmp, "crash_out.json")
    ck.run_driver("./tables", "^TestCrash$", {"VERIF_CRASH": ck.write_lines("crash.ndjson", plans),
                                              "VERIF_USERS": ck.write_lines("crash_users.ndjson", uh),
                                              "VERIF_ROUTES": ck.write_lines("crash_routes.ndjson", rh),
                                              "VERIF_OUT": out}, timeout=3000)
    res = ck.read_result(out)
    outcomes = {}
    complete_seen = 0
    for r in res["results"]:
        o = r["outcome"].split(":")[0]
        outcomes[o] = outcomes.get(o, 0) + 1
        if r["outcome"].startswith("VIOLATION"):
            key = "C18:crash:%s:%s" % (r["kind"], r["kill_at"])
            ck.violation(key, "%s table, history [%s], process killed after %s: restart loads {%s}; previous {%s}; new {%s}" % (
                r["kind"], r["hist"], r["kill_at"] or "<before flush>", r["loaded"], r["Old"], r["New"]), r)
        elif r["outcome"].startswith("drift"):
            ck.cov["model_drift"] += 1
        if r["kill_at"] == "<none>" and len(r["fired"]) > 1:
            complete_seen += 1
            if r["fired"][:-1] != res["model_steps"]:
                ck.cov["model_drift"] += 1
                ck.notes.append("flush step sequence of the code %s differs from Durable.tla (Atomic) %s" % (r["fired"][:-1], res["model_steps"]))
    if complete_seen == 0:
        raise Infra("dead driver: no complete flush observed (hooks json.* never fired)")
    killed = sum(v for k, v in outcomes.items() if k in ("old", "new"))
    if killed < len(res["kills"]):
        raise Infra("dead driver: only %d crash runs reached their kill point" % killed)
    ck.cov["crash_runs"] = len(res["results"])
    ck.cov["crash_outcomes"] = outcomes
    ck.cov["crash_points"] = res["kills"]
    ck.cov["traces_validated_against_impl"] += len(res["results"])
    ck.count(len(res["results"]), ("crash:%s:%s" % (r["kind"], r["kill_at"]) for r in res["results"]))
    ck.sample({"crash_run": {k: res["results"][len(res["results"]) // 2][k] for k in ("kind", "hist", "kill_at", "fired", "outcome")}})
    h = urows2[0]
    ck.sample({"user_history": [(o["op"], o["name"], o["pw"], o["admin"], o["pull"], o["upd"]) for o in h["hist"]],
               "expected_final_table": h["hist"][-1]["table"]})
    ck.assumptions += ["process death is SIGKILL of a child process at a hook; loss of unsynced data on power failure cannot be reproduced in this sandbox and is not claimed",
                       "a mid-write crash is produced by the hook writing the first half of the bytes before the kill",
                       "user names over {A,a,b}, passwords {p1,p2}, pull right {'', '/a/*'}; rights compared modulo 'administrator with empty right gets *'"]

    # an edit that arrives while a flush is writing the file (the flush is held at the hook json.write)
    ofr = os.path.join(ck.tmp, "flushrace.json")
    ck.run_driver("./tables", "^TestFlushRace$", {"VERIF_OUT": ofr}, timeout=600)
    for o in ck.read_result(ofr)["outcomes"]:
        ck.cov["flush_race_rounds_" + o["table"]] = o["rounds"]
        if o["lost"]:
            ck.violation("C18:edit-during-flush-is-lost:" + o["table"], "%s: in %d of %d rounds an edit made while a flush was writing was missing after the next flush and a restart: %s" % (o["table"], o["lost"], o["rounds"], o["sample"]), o)
    # the management API (administrative delete / stop, listings, table edits, who may call what)
    from checks import api_common
    api_common.api_leg(ck, "C18")

META = {
    "text": "TLC enumerates all histories (save/update/delete/flush/restart, length <= 2 quick / 3 thorough, plus simulated length-9 histories) of the user-table and route-table specifications and the crash model of a flush (every file-system step, crash after each, both initial file states); histories are replayed on the real provider/auth and provider/route with the real JSON providers and compared after every step; for every crash point x sampled history a child process is SIGKILLed at the matching hook in EncodeJSONFile and a fresh load must yield the previous or the new table.",
    "note": "Trusted: TLC, the transcription of the statement in UserTable.tla/RouteTable.tla/Durable.tla, the verif hooks json.* in utils/io.go as crash points. Power-loss semantics (unsynced pages) are out of reach.",
    "technique": "TLA+ reference models of the tables and of the flush's file-system steps; TLC-generated histories and crash plans replayed on the real code (child process killed at hook points)",
    "specs": ["api", "tables"],
}
