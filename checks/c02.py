"""C02 - late joiners start with parameter sets and the current GOP, contiguous with live."""
from checks import fanout_common as fc
LEVEL = "model_checking"


def run(ck):
    q = ck.quick()
    fc.run_family(ck, "C02", ["gop1", "audio1", "nocache1", "hevc1", "flv1", "flvaud1", "flvnocache1", "flvstamp2", "gopsps1"] if q else list(fc.fs.SCENARIOS),
                  ["C02"], 200 if q else 2000, 600 if q else 20000)


META = {
    "text": "Same machinery as C01 (Fanout.tla / FanoutProp.tla / gate-scheduler replay / TLC trace validation), with the scenarios that exercise the caches: parameter sets, GOP restart at a second key frame, cache_gop off, an audio packet inside the GOP, and every interleaving of StartConsume (snapshot, register) with a concurrent WriteRtpPacket (cache update, broadcast). ReplayAt/Owed in FanoutProp.tla transcribe the statement; the replay candidates are all attach points inside the call's bracket.",
    "note": "Trusted: TLC, FanoutProp.tla as transcription of the statement, the gate scheduler (one process runs between two hooks; quiescence from goroutine states), recording consumers (payload compared byte-wise with a copy taken before publication). Transport adapters (TCP/UDP/WS/FLV writers) are covered by the server-level checks, not here.",
    "technique": "TLA+ implementation-level model checked by TLC against property invariants; TLC-generated schedules replayed on real code via hook gates; TLC trace validation (property level and step level)",
    "specs": ["fanout"],
}
