"""C03 - every consumer is released when its stream ends or it is stopped."""
from checks import fanout_common as fc
from checks.c05 import registry_histories
LEVEL = "model_checking"


def run(ck):
    q = ck.quick()
    fc.run_family(ck, "C03", ["close2", "stopclose1", "flvclose2", "backlogstop1", "replace2"] if q else list(fc.fs.SCENARIOS),
                  ["C03"], 200 if q else 2000, 600 if q else 20000)
    # the ways a stream ends at registry level (unregister of a replaced publisher, replacement, admin close, idle
    # close) and attaching to a stream that has already ended: Registry.tla histories; only what concerns the
    # release of consumers and the closing of streams is attributed to C03
    registry_histories(ck, "C03", q, kinds=("consumer-closed", "stream-closed", "count", "panic"), edge_sample=1500)


META = {
    "text": "Same machinery as C01, with the closer and stopper processes: TLC explores every interleaving of attach / StopConsume / Stream.Close / consumer-goroutine steps (including the window between the closed-check and cond.Wait, and between Load and Delete in Remove) and checks count >= 0, count = registered, and at quiescence transport closed + goroutine gone for every attached consumer of a closed stream / every stopped consumer; schedules are replayed on the real code, quiescence and parked goroutines are read from goroutine states, and the census is validated by TLC.",
    "note": "Trusted: TLC, FanoutProp.tla as transcription of the statement, the gate scheduler (one process runs between two hooks; quiescence from goroutine states), recording consumers (payload compared byte-wise with a copy taken before publication). Transport adapters (TCP/UDP/WS/FLV writers) are covered by the server-level checks, not here.",
    "technique": "TLA+ implementation-level model checked by TLC against property invariants; TLC-generated schedules replayed on real code via hook gates; TLC trace validation (property level and step level)",
    "specs": ["fanout"],
}
