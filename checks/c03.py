"""C03 - every consumer is released when its stream ends or it is stopped."""
from checks import fanout_common as fc
from checks.c05 import registry_histories
from vlib import Infra
LEVEL = "model_checking"


def converters(ck):
    """the conversion goroutines of a stream must end with it: the loop / Close protocol as a model, and the schedule
    'Close between the loop condition and Pop' forced on the real converters through the hook conv.loop"""
    import os
    from vlib import Infra
    ck.model(ck.tlc("fanout", "ConvLoop", "Conv_push.cfg", workers=2, label="converter loop: Close wakes by queueing an element (safety and liveness)"))
    neg = ck.tlc("fanout", "ConvLoop", "Conv_signal.cfg", workers=2, must_pass=False, label="negative control: Close wakes with a bare signal (as found before 2c6d1fe)")
    if "NeverParkedForGood" not in neg.violated:
        raise Infra("negative control failed: a bare signal does not park the converter goroutine in ConvLoop.tla")
    tr = os.path.join(ck.tmp, "conv.ndjson")
    ck.run_driver("./conv", "^TestConverters$", {"VERIF_OUT": tr}, timeout=600)
    n = sum(1 for _ in open(tr))
    if n < 7:
        raise Infra("converter leg produced %d records" % n)
    rt = ck.tlc("fanout", "ConvTrace", "ConvTrace.cfg", workers=1, env={"VERIF_TRACE": tr}, label="acceptance of the converter leg")
    if rt.distinct != n + 1:
        raise Infra("trace validation consumed %d of %d" % (rt.distinct - 1, n))
    ck.cov["converter_leg"] = {"records": n}
    ck.cov["traces_validated_against_impl"] += 6
    for b in rt.printed("@BAD"):
        ev = b["ev"]
        ck.violation("%s:%s:%s" % (b["why"], ev.get("kind", "stream"), ev.get("schedule", "")), "%s: %s" % (b["why"], ev), b)


def multicast(ck):
    """multicast players are consumers of the stream: when it ends every one of them has its connection closed"""
    import os
    ck.model(ck.tlc("fanout", "McastProxy", "Mcast_TRUE.cfg", label="multicast proxy: join / leave / late exit of a stopped consumer, a Close from an older incarnation is ignored"))
    neg = ck.tlc("fanout", "McastProxy", "Mcast_FALSE.cfg", must_pass=False, label="negative control: the late Close shuts down whatever runs now (as found before 883d5fa)")
    if "NoCollateral" not in neg.violated:
        raise Infra("negative control Mcast_FALSE does not violate NoCollateral")
    tr = os.path.join(ck.tmp, "mcast.ndjson")
    ck.run_driver("./transport", "^TestMulticast$", {"VERIF_OUT": tr}, timeout=600)
    n = sum(1 for _ in open(tr))
    if n < 7:
        raise Infra("multicast leg produced %d records" % n)
    rt = ck.tlc("fanout", "TransportTrace", "McastTrace.cfg", workers=1, env={"VERIF_TRACE": tr}, label="acceptance of the multicast-player leg")
    if rt.distinct != n + 1:
        raise Infra("trace validation consumed %d of %d" % (rt.distinct - 1, n))
    ck.cov["multicast_leg"] = {"records": n}
    ck.cov["traces_validated_against_impl"] += n
    seen = set()
    for b in rt.printed("@BAD"):
        if not b["why"].startswith("C03:") or b["why"] in seen:
            continue
        seen.add(b["why"])
        ck.violation(b["why"], "%s: %s" % (b["why"], b["ev"]), b)


def run(ck):
    q = ck.quick()
    fc.run_family(ck, "C03", ["close2", "stopclose1", "flvclose2", "backlogstop1", "replace2"] if q else list(fc.fs.SCENARIOS),
                  ["C03"], 200 if q else 2000, 600 if q else 20000)
    converters(ck)
    multicast(ck)
    # the ways a stream ends at registry level (unregister of a replaced publisher, replacement, admin close, idle
    # close) and attaching to a stream that has already ended: Registry.tla histories; only what concerns the
    # release of consumers and the closing of streams is attributed to C03
    registry_histories(ck, "C03", q, kinds=("consumer-closed", "stream-closed", "count", "panic"), edge_sample=1500)

    # the management API (administrative delete / stop, listings, table edits, who may call what)
    from checks import api_common
    api_common.api_leg(ck, "C03")

META = {
    "text": "Same machinery as C01, with the closer and stopper processes: TLC explores every interleaving of attach / StopConsume / Stream.Close / consumer-goroutine steps (including the window between the closed-check and cond.Wait, and between Load and Delete in Remove) and checks count >= 0, count = registered, and at quiescence transport closed + goroutine gone for every attached consumer of a closed stream / every stopped consumer; schedules are replayed on the real code, quiescence and parked goroutines are read from goroutine states, and the census is validated by TLC. A converter leg covers the three conversion goroutines: ConvLoop.tla (loop / Close protocol, bare signal as negative control) and, on the real rtp.Demuxer / flv.Muxer / mpegts.Muxer, the schedule in which Close runs while the goroutine stands between its loop condition and the blocking Pop (hook conv.loop), plus 200 free-running NewStream / Close cycles.",
    "note": "Trusted: TLC, FanoutProp.tla as transcription of the statement, the gate scheduler (one process runs between two hooks; quiescence from goroutine states), recording consumers (payload compared byte-wise with a copy taken before publication). Transport adapters (TCP/UDP/WS/FLV writers) are covered by the server-level checks, not here.",
    "technique": "TLA+ implementation-level model checked by TLC against property invariants; TLC-generated schedules replayed on real code via hook gates; TLC trace validation (property level and step level)",
    "specs": ["api", "fanout"],
}
