"""C16 - permission patterns mean what the configuration guide says.

1. TLC enumerates every right string (<= MaxR chars over {a,B,+,*,/,;,' '}) x admin flag and
   prints, per right, the set of stream paths the *specification* (PathPattern.tla, written
   from the statement) permits; the spec's own sanity theorems are invariants of that run.
2. The Go driver replays the table on the real auth package (Save + ValidatePermission, pull
   and push) and reports every pair where the verdicts differ on the compared domain.
3. Reverse direction: random longer rights/paths are evaluated by the real code, written as a
   trace, and TLC validates each observation against PathPattern!Permits (PathTrace.tla).
"""
import json, os
from vlib import Infra
LEVEL = "model_checking"


def run(ck):
    cfg = "PathTable4.cfg" if ck.quick() else "PathTable5.cfg"
    r = ck.tlc("pathpattern", "PathTable", cfg, timeout=1500, label="table generation + spec theorems")
    ck.model(r)
    rows = r.printed("@R")
    if len(rows) < 100:
        raise Infra("table generation produced %d rows" % len(rows))
    tab = os.path.join(ck.tmp, "c16_table.ndjson")
    with open(tab, "w") as f:
        for row in rows:
            f.write(json.dumps(row) + "\n")
    out = os.path.join(ck.tmp, "c16_out.json")
    rc, txt, _ = ck.go_test("./c16", "^TestTable$", env={"VERIF_IN": tab, "VERIF_OUT": out})
    if rc != 0:
        raise Infra("c16 TestTable failed:\n" + txt[-3000:])
    res = ck.read_result(out)
    if res["rows"] != len(rows):
        raise Infra("driver consumed %d of %d rows" % (res["rows"], len(rows)))
    ck.cov["traces_validated_against_impl"] += res["rows"]
    ck.count(res["pairs"], ("row%d" % i for i in range(res["compared_rows"])))
    ck.cov["table_rows"] = res["rows"]
    ck.cov["compared_rows"] = res["compared_rows"]
    ck.cov["pairs"] = res["pairs"]
    ck.cov["exhaustive"] = True
    for row in rows[:2000:500]:
        ck.sample({"right": "".join(row["r"]), "admin": row["admin"], "compared": row["wf"],
                   "permitted": ["".join(p) for p in row["ok"]][:8]})
    for m in res["mismatches"] or []:
        key = "C16:%s:right=%r:admin=%s:path=%s" % (m["which"], m["right"], m["admin"], m["path"])
        ck.violation(key, "right %r (admin=%s) %s path %s: spec says %s, code says %s" % (
            m["right"], m["admin"], m["which"], m["path"], m["want"], m["got"]), m)

    # reverse direction: trace validation of random longer observations
    tr = os.path.join(ck.tmp, "c16_trace.ndjson")
    rc, txt, _ = ck.go_test("./c16", "^TestRandom$", env={"VERIF_OUT": tr})
    if rc != 0:
        raise Infra("c16 TestRandom failed:\n" + txt[-3000:])
    lines = open(tr).read().splitlines()
    nlines = len(lines)
    r2 = ck.tlc("pathpattern", "PathTrace", "PathTrace.cfg", workers=1, env={"VERIF_TRACE": tr},
                timeout=1200, label="trace validation of random observations")
    if r2.distinct != nlines + 1:
        raise Infra("trace validation consumed %d of %d lines" % (r2.distinct - 1, nlines))
    bad = r2.printed("@BAD")
    cmp_n = len(r2.printed("@CMP"))
    ck.cov["random_observations"] = nlines
    ck.cov["random_observations_compared"] = cmp_n
    ck.cov["traces_validated_against_impl"] += nlines
    ck.count(nlines)
    if cmp_n < nlines // 4:
        raise Infra("vacuous random leg: only %d of %d observations in the compared domain" % (cmp_n, nlines))
    for b in bad:
        t = json.loads(lines[b["line"] - 1])
        key = "C16:random:right=%r:admin=%s:path=%s" % ("".join(t["r"]), t["admin"], "".join(t["p"]))
        ck.violation(key, "right %r admin=%s path %s: code says %s, spec says %s" % (
            "".join(t["r"]), t["admin"], "".join(t["p"]), t["v"], b["want"]), t)
    ck.assumptions += [
        "compared domain: patterns whose segments are letters, '+', or a final '*' (optional leading '/', blanks around a pattern); stream paths '/seg/seg..' of letters; other shapes are run for totality only",
        "alphabet {a,B,+,*,/,;,space} for rights and {A,b,/} for paths (every literal match crosses case)"]

META = {
    "text": "TLC enumerates the specification's verdict (PathPattern!Permits, transcribed clause by clause from the statement) for every right string up to 4 (quick) / 5 (thorough) characters over {a,B,+,*,/,;,space} x admin flag x every stream path up to 5 characters; each table row is replayed on the real auth.Save/ValidatePermission (pull and push) and compared; random longer observations from the real code are validated by TLC against the same operator. Exhaustive inside the bounds, which is what the quantifier asks for.",
    "note": "Trusted: TLC, the transcription of the statement in spec/pathpattern/PathPattern.tla, the compared-domain predicate (WFRight/WFPath: shapes the statement leaves open are executed for totality but not compared).",
    "technique": "TLA+ specification of the pattern semantics; TLC-generated exhaustive verdict table replayed on the real code; TLC trace validation of random observations",
    "specs": ["pathpattern"],
}
