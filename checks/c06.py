"""C06 - RTP depacketisation reproduces the sender's access units exactly."""
import json, os, random
from vlib import Infra
LEVEL = "model_checking"


def run(ck):
    q = ck.quick()
    r2 = ck.tlc("depack", "Depack", "Depack2.cfg", timeout=900, label="all packetisation x fault plans, <= 2 units")
    ck.model(r2)
    plans = r2.printed("@D")
    r3 = ck.tlc("depack", "Depack", "Depack3.cfg", timeout=1800, label="all packetisation x fault plans, <= 3 units, up to 4 fragments")
    ck.model(r3)
    p3 = r3.printed("@D")
    ra = ck.tlc("depack", "Depack", "DepackAac.cfg", workers=2, label="AAC: 1..3 AUs per packet")
    ck.model(ra)
    aac = ra.printed("@D")
    if len(plans) < 500 or len(p3) < 10000 or len(aac) < 20:
        raise Infra("plan generation produced %d/%d/%d" % (len(plans), len(p3), len(aac)))
    rnd = random.Random(ck.seed)
    rnd.shuffle(p3)
    total3 = len(p3)
    if q:
        p3 = p3[:25000]
    allp = plans + p3
    out = os.path.join(ck.tmp, "c06_out.json")
    ck.run_driver("./c06", "^TestDepack$", {"VERIF_IN": ck.write_lines("c06_in.ndjson", allp), "VERIF_IN_AAC": ck.write_lines("c06_aac.ndjson", aac * 20),
                                            "VERIF_OUT": out}, timeout=3000)
    res = ck.read_result(out)
    if res["frames"] < len(allp) and not res["mismatches"]:
        raise Infra("vacuous: %d frames for %d plans" % (res["frames"], len(allp)))
    ck.cov["traces_validated_against_impl"] += 2 * len(allp) + len(aac) * 20
    ck.cov["plans"] = {"two_units": len(plans), "three_units_total": total3, "three_units_replayed": len(p3), "aac": len(aac)}
    ck.cov["frames_compared"] = res["frames"]
    ck.cov["exhaustive"] = not q
    ck.count(2 * len(allp) + len(aac), ("p%d" % i for i in range(len(allp))))
    for m in res["mismatches"] or []:
        pl = m["plan"]
        key = "C06:%s:%s:plan=%s:lost=%s:swap=%s" % (m["codec"], m["kind"], "+".join(pl.get("plan") or []), pl.get("lost"), pl.get("swap"))
        ck.violation(key, "%s, packetisation %s, packets lost %s, swap at %s, arrival order %s: %s: expected %s, demuxer gave %s" % (
            m["codec"], pl.get("plan"), pl.get("lost"), pl.get("swap"), pl.get("arrivals"), m["kind"], m["want"], m["got"]), m)
    # the first RTCP sender report, at several positions in the stream
    out2 = os.path.join(ck.tmp, "c06_sr.json")
    ck.run_driver("./c06", "^TestSenderReport$", {"VERIF_OUT": out2})
    sr = ck.read_result(out2)
    if len(sr["outcomes"]) < 3:
        raise Infra("sender-report leg produced %d outcomes" % len(sr["outcomes"]))
    ck.cov["sender_report_positions"] = [o["sr_after_frames"] for o in sr["outcomes"]]
    for o in sr["outcomes"]:
        if abs(o["got_delta_ns"] - o["want_delta_ns"]) > 1000:
            pos = "before-first-frame" if o["sr_after_frames"] == 0 else "after-first-frame"
            ck.violation("C06:sender-report-%s:pts-step" % pos,
                         "first RTCP sender report arriving after %d frames: 5 frames 3000 ticks apart span %d ns of presentation time instead of %d ns" % (
                             o["sr_after_frames"], o["got_delta_ns"], o["want_delta_ns"]), o)
    ck.sample({"plan": plans[len(plans) // 2]})
    ck.sample({"plan": p3[0]})
    ck.assumptions += ["loss and adjacent swaps are placed inside fragmented units (as the quantifier says); unit sizes 12..1412 bytes, first fragment of 1 byte; sequence numbers wrap during the run",
                       "presentation times are compared as differences, 1 us tolerance; a separate leg injects the first RTCP sender report before the first frame, after 1 and after 3 frames",
                       "H.264 filler data NAL units (type 12) are dropped by design and are not part of the inputs"]


META = {
    "text": "Depack.tla is the receiver of the statement over packetisation plans (single, aggregated x2/x3, fragmented x2/x3/x4) and fault plans (any set of lost fragments, one adjacent swap); TLC enumerates them all (982 plans up to 2 units, 291k up to 3 units; quick replays a seeded 25k of the latter) with the units that must come out; an independent packetiser turns every plan into real RTP packets for H.264, H.265 and AAC-hbr, the real rtp.Demuxer depacketises them, and the frames are compared byte for byte, in order, with presentation-time differences.",
    "note": "Trusted: TLC, Depack.tla, the independent packetiser in harness/c06.",
    "technique": "TLA+ receiver state machine; TLC-enumerated packetisation and loss plans materialised by an independent packetiser and replayed on the real demuxer",
    "specs": ["depack"],
}
