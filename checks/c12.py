"""C12 - RTSP sessions answer every request once and follow the legal method order."""
import os, random
from vlib import Infra
LEVEL = "model_checking"


def run(ck):
    q = ck.quick()
    r = ck.tlc("rtsp", "RtspSession", "Rtsp3.cfg", timeout=900, label="all request sequences up to length 3")
    ck.model(r)
    rows = r.printed("@H")
    re_ = ck.tlc("rtsp", "RtspSession", "RtspEdges.cfg", timeout=900, label="edge cover of the session automaton")
    ck.model(re_)
    edges = re_.printed("@H")
    rs = ck.tlc("rtsp", "RtspSession", "RtspSim.cfg", simulate="num=%d" % (40 if q else 600), depth=16, timeout=900, label="simulated sequences of length 12")
    sims = rs.printed("@H")
    if len(rows) < 1000 or len(edges) < 100 or len(sims) < 10:
        raise Infra("generation produced %d/%d/%d sequences" % (len(rows), len(edges), len(sims)))
    rnd = random.Random(ck.seed)
    if q:
        rnd.shuffle(rows)
        rows = rows[:1500]
    allh = edges + sims + rows
    out = os.path.join(ck.tmp, "c12_out.json")
    inp = ck.write_lines("c12_in.ndjson", allh)
    ck.cov["requests"] = 0
    for transport in ("tcp", "ws"):
        ck.run_driver("./rtspsess", "^TestSequences$", {"VERIF_IN": inp, "VERIF_OUT": out, "VERIF_TRANSPORT": transport}, timeout=3000)
        res = ck.read_result(out)
        if res["sequences"] != len(allh) and not res["mismatches"]:
            raise Infra("driver ran %d of %d sequences (%s)" % (res["sequences"], len(allh), transport))
        if transport == "ws" and res["over_websocket"] < len(allh) // 2 and not res["mismatches"]:
            raise Infra("only %d of %d sequences ran over WebSocket" % (res["over_websocket"], len(allh)))
        ck.cov["traces_validated_against_impl"] += res["sequences"]
        ck.cov["requests"] += res["requests"]
        ck.cov["sequences_over_" + transport] = res["over_websocket"] if transport == "ws" else res["sequences"]
        ck.count(res["requests"], ("%s%d" % (transport, i) for i in range(res["distinct"])))
        for m in res["mismatches"] or []:
            key = "C12:%s:%s" % (m["kind"], " ".join(m["seq"].split()[:m["step"] + 1]))
            ck.violation(key, "sequence [%s], request %d: %s: specification requires %s, server gives %s" % (m["seq"], m["step"] + 1, m["kind"], m["want"], m["got"]), m)
    ck.cov["edge_cover"] = len(edges)
    # the WSP carrier (player only; PAUSE legal while playing): its own automaton (Carrier = "wsp"), same driver
    w3 = ck.tlc("rtsp", "RtspSession", "Wsp3.cfg", timeout=900, label="WSP carrier: all request sequences up to length 3")
    ck.model(w3)
    we = ck.tlc("rtsp", "RtspSession", "WspEdges.cfg", timeout=900, label="WSP carrier: edge cover")
    ck.model(we)
    wsim = ck.tlc("rtsp", "RtspSession", "WspSim.cfg", simulate="num=%d" % (40 if q else 600), depth=16, timeout=900, label="WSP carrier: simulated sequences of length 12")
    wrows, wedges, wsims = w3.printed("@H"), we.printed("@H"), wsim.printed("@H")
    if len(wrows) < 1000 or len(wedges) < 100 or len(wsims) < 10:
        raise Infra("WSP generation produced %d/%d/%d sequences" % (len(wrows), len(wedges), len(wsims)))
    if q:
        rnd.shuffle(wrows)
        wrows = wrows[:1500]
    wall = wedges + wsims + wrows
    ck.run_driver("./rtspsess", "^TestSequences$", {"VERIF_IN": ck.write_lines("c12_wsp.ndjson", wall), "VERIF_OUT": out, "VERIF_TRANSPORT": "wsp"}, timeout=3000)
    res = ck.read_result(out)
    if res["sequences"] + res["skipped_not_expressible"] != len(wall) and not res["mismatches"]:
        raise Infra("driver ran %d of %d WSP sequences" % (res["sequences"], len(wall)))
    if res["over_websocket"] < len(wall) // 2 and not res["mismatches"]:
        raise Infra("only %d of %d sequences ran over WSP" % (res["over_websocket"], len(wall)))
    ck.cov["traces_validated_against_impl"] += res["sequences"]
    ck.cov["requests"] += res["requests"]
    ck.cov["sequences_over_wsp"] = res["over_websocket"]
    ck.cov["wsp_edge_cover"] = len(wedges)
    ck.count(res["requests"], ("wsp%d" % i for i in range(res["distinct"])))
    for m in res["mismatches"] or []:
        key = "C12:%s:%s" % (m["kind"], " ".join(m["seq"].split()[:m["step"] + 1]))
        ck.violation(key, "sequence [%s], request %d: %s: specification requires %s, server gives %s" % (m["seq"], m["step"] + 1, m["kind"], m["want"], m["got"]), m)
    # TEARDOWN of a multicast player releases its membership of the shared proxy (the session automaton's stream has no
    # multicast source; this leg publishes one)
    trm = os.path.join(ck.tmp, "mcast.ndjson")
    ck.run_driver("./transport", "^TestMulticast$", {"VERIF_OUT": trm}, timeout=600)
    nm = sum(1 for _ in open(trm))
    rtm = ck.tlc("fanout", "TransportTrace", "McastTrace.cfg", workers=1, env={"VERIF_TRACE": trm}, label="acceptance of the multicast-player leg")
    if nm < 6 or rtm.distinct != nm + 1:
        raise Infra("multicast leg: %d records, %d consumed" % (nm, rtm.distinct - 1))
    seen = set()
    for b in rtm.printed("@BAD"):
        if b["why"].startswith("C12:") and b["why"] not in seen:
            seen.add(b["why"])
            ck.violation(b["why"], "%s: %s" % (b["why"], b["ev"]), b)
    ck.sample({"sequence": [(s["req"], s["exp"]) for s in sims[0]]})
    ck.sample({"sequence": [(s["req"], s["exp"]) for s in edges[len(edges) // 2]]})
    ck.assumptions += ["answer classes: ok (2xx), 455, refuse (any status >= 400; 455 also accepted), any (the statement does not decide: after a refused SETUP, DESCRIBE after ANNOUNCE)",
                       "a missing response is decided by an OPTIONS barrier sent right after the request, not by waiting",
                       "multicast transports are not exercised (no multicast network in the sandbox)",
                       "over WebSocket the stream a DESCRIBE names is the path of the ws:// URL (by design): a sequence is mapped by opening the WebSocket on the path its DESCRIBE requests name; sequences naming both the live and the missing path run over TCP only; after an ANNOUNCE (which re-binds the session's path) a DESCRIBE over WebSocket is not decided"]


META = {
    "text": "RtspSession.tla is the session automaton of the statement (20 abstract states x 19 request kinds). TLC produces the complete edge cover (266 (state, request) pairs, each with a shortest prefix), all sequences up to length 3 (6.5k; quick replays a seeded 1500) and simulated sequences of length 12, each request annotated with the required answer class and data-plane obligations; every sequence is replayed on a real TCP connection and on an RTSP-over-WebSocket connection (strict parser: one message = one response or one frame) to the in-process server while a live stream with an audio track is being published; the sequences of the WSP carrier's automaton are replayed over a WSP channel pair (requests wrapped on the control socket, media on the data socket).",
    "note": "Trusted: TLC, RtspSession.tla as transcription of the statement, the independent strict RTSP/interleaved parser of harness/vclient. The WSP carrier has its own session code (service/wsp) and its own automaton (Carrier = wsp: player only, PAUSE legal while playing, interleaved TCP only).",
    "technique": "TLA+ automaton of the RTSP session; TLC edge cover + exhaustive short sequences + simulation replayed on real connections with per-request comparison",
    "specs": ["rtsp", "fanout"],
}
