"""C04 - stalled or failing consumers are isolated; backlog bounded; drops align to GOPs."""
from checks import fanout_common as fc
LEVEL = "model_checking"


def run(ck):
    q = ck.quick()
    fc.run_family(ck, "C04", ["panic2", "panicclose2", "backlog1", "backlog2", "backlogjoin1"] if q else list(fc.fs.SCENARIOS),
                  ["C04"], 200 if q else 2000, 600 if q else 20000)


META = {
    "text": "Same machinery as C01, with a panicking consumer and a backlog limit of 1: the model lets the consumer goroutine lag arbitrarily (every interleaving is a stall/resume pattern); TLC checks that the publisher is enabled in every state where it has work (ENABLED invariant), that a panicking consumer ends detached and closed while the other consumer's delivery stays complete, and that withheld runs begin and end at key frames; schedules are replayed on the real code and the traces validated by TLC.",
    "note": "Trusted: TLC, FanoutProp.tla as transcription of the statement, the gate scheduler (one process runs between two hooks; quiescence from goroutine states), recording consumers (payload compared byte-wise with a copy taken before publication). Transport adapters (TCP/UDP/WS/FLV writers) are covered by the server-level checks, not here.",
    "technique": "TLA+ implementation-level model checked by TLC against property invariants; TLC-generated schedules replayed on real code via hook gates; TLC trace validation (property level and step level)",
    "specs": ["fanout"],
}
