"""C13 - concurrent writers never tear messages on an interleaved connection."""
import json, os
from vlib import Infra
LEVEL = "model_checking"


def run(ck):
    r = ck.tlc("wire", "WriteLock", "Lock.cfg", workers=2, label="two writers with the write lock: wire always well formed")
    ck.model(r)
    ck.model(ck.tlc("wire", "BufferedWrite", "Buffered.cfg", label="shared write buffer: response write + flush under the lock, every interleaving with two frames"))
    nb = ck.tlc("wire", "BufferedWrite", "BufferedNegFlush.cfg", must_pass=False, label="negative control: flush outside the lock (seeded change C13-3)")
    if "WireOK" not in nb.violated and "Complete" not in nb.violated:
        raise Infra("negative control failed: flushing outside the lock does not tear the wire in BufferedWrite.tla")
    for cfg, what in (("NoFrameLock.cfg", "media writer without the lock"), ("NoRespLock.cfg", "response writer without the lock")):
        n = ck.tlc("wire", "WriteLock", cfg, workers=1, must_pass=False, label="negative control: " + what)
        if "WireOK" not in n.violated:
            raise Infra("negative control failed (%s): WireOK not violated" % what)
    ck.model(ck.tlc("wire", "MCPooledWrite", "Pooled.cfg", label="pooled message buffers: response writer, media writer, another connection's writer (whose first write fails), 2 messages each, 3 buffers"))
    for cfg, what in (("PooledNegBefore.cfg", "buffer returned to the pool before the write (seeded changes C12-5, C13-5)"),
                      ("PooledNegDouble.cfg", "buffer returned twice after a failed write (seeded change C01-6)")):
        n = ck.tlc("wire", "MCPooledWrite", cfg, must_pass=False, label="negative control: " + what)
        if "WireFaithful" not in n.violated:
            raise Infra("negative control failed (%s): WireFaithful not violated" % what)
    ck.cov["interleavings_of_the_model"] = len(r.printed("@S"))
    tr = os.path.join(ck.tmp, "c13.ndjson")
    out2 = os.path.join(ck.tmp, "c13_out.json")
    ck.run_driver("./c13", "^TestTear$", {"VERIF_OUT": tr, "VERIF_OUT2": out2}, timeout=3000)
    res = ck.read_result(out2)
    ck.cov["responses_parked_at_ws_write"] = res["parked_at_ws_write"]
    if res["changed_while_parked"]:
        ck.notes.append("%d responses changed in their buffer while parked before the WebSocket write (two writers share a pooled buffer)" % res["changed_while_parked"])
    lines = open(tr).read().splitlines()
    rt = ck.tlc("wire", "WireTrace", "WireTrace.cfg", workers=1, env={"VERIF_TRACE": tr}, label="validation of %d wire items" % len(lines), timeout=1800)
    if rt.distinct != len(lines) + 1:
        raise Infra("wire validation consumed %d of %d" % (rt.distinct - 1, len(lines)))
    ck.cov["traces_validated_against_impl"] += res["executions"]
    ck.cov["gated_overlaps"] = res["gated_overlaps"]
    ck.cov["wire_items"] = len(lines)
    ck.count(len(lines), ("overlap%d" % i for i in range(res["gated_overlaps"])))
    begins = {}
    for l in lines:
        e = json.loads(l)
        if e["e"] == "begin":
            begins[e["t"]] = e
    vacuous = []
    for b in rt.printed("@BAD"):
        tp = begins.get(b["t"], {}).get("transport")
        if b["why"] == "C13:vacuous-no-media-frames":
            vacuous.append((b["t"], tp))
            continue
        key = "%s:%s" % (b["why"], tp)
        ck.violation(key, "transport %s: %s: %s" % (tp, b["why"], json.dumps(b["ev"])[:300]), b)
    # an execution that breaks off at a torn message gates little: that is a verdict above, not a dead driver
    if not ck.violations and res["gated_overlaps"] < 10:
        raise Infra("dead driver: only %d overlaps were gated at frame.prefix (hook not firing?)" % res["gated_overlaps"])
    if not ck.violations and res["parked_at_ws_write"] < 5:
        raise Infra("dead driver: only %d responses were parked at ws.write (hook not firing?)" % res["parked_at_ws_write"])
    if vacuous and not ck.violations:
        raise Infra("vacuous: executions %s received no media frame" % vacuous)
    # the WebSocket players of the transport leg (ws-rtsp and WSP, both tracks / video track only, slow socket writes):
    # every message they read must be exactly one complete frame or response
    from checks import c01
    c01.transports(ck, prefix="C13:")
    ck.sample({"execution": begins.get(1), "first_items": [json.loads(l) for l in lines[1:12]]})
    ck.assumptions += ["the media writer is parked by the verif hook frame.prefix between prefix and payload; the request is sent in that window; the gate opens when the request handler is seen parked on the write lock (goroutine dump) or after 40 ms",
                       "on WebSocket a response is also parked at the entry of the WebSocket write (hook ws.write) for 4 ms while three players' media writers use the shared buffer pool (GOMAXPROCS 4 in that window)",
                       "the WSP data channel (its own Consume in service/wsp) and ws-rtsp players that set up both tracks or the video track only are read by the strict parser in the transport leg (shared with C01)"]


META = {
    "text": "PooledWrite.tla models the pooled message buffers of the WebSocket writers (get / reset / encode in two pieces / lock / write / put for a lock-first response writer, an encode-first media writer and another connection's writer whose write fails): TLC shows Exclusive and WireFaithful when the buffer goes back once, after the write, and a wrong wire when it goes back before the write or twice (negative controls = seeded changes C12-5, C13-5, C01-6). BufferedWrite.tla models the shared bufio.Writer at the grain of its copy / advance and emit / reset steps (the flush of a response must happen under the lock: negative control). WriteLock.tla models the two writers of a playing connection step by step (lock, prefix, payload, unlock / lock, response, unlock); TLC shows every interleaving keeps the wire well formed with the lock and finds a torn wire without it (negative controls). On the real server the media writer is parked by the hook frame.prefix exactly between the interleaved prefix and the payload while OPTIONS / repeated PLAY requests are sent (TCP and RTSP-over-WebSocket); a strict independent parser turns everything the client reads into a trace that TLC validates (every item a complete response or frame, every request answered once).",
    "note": "Trusted: TLC, WriteLock.tla / WireTrace.tla, the strict parser in harness/vclient (media payloads deliberately contain 'RTSP/1.0 200 OK' and '$' bytes), the hook frame.prefix.",
    "technique": "TLA+ model of the lock discipline checked by TLC (with negative controls); hook-gated overlap of the two writers on the real server; TLC trace validation of the wire",
    "specs": ["wire"],
}
