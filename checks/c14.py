"""C14 - RTSP wire codec round-trips and frames interleaved data exactly.

WireCases.tla enumerates what can be on a connection: sequences of request / response / interleaved-frame shapes
(method, URL form incl. IPv6 and '*', header shape incl. repeated lines, other name case, unknown names, 5000-byte
values, empty values, body none / small / larger than the reader's buffer, emitted by the codec's own writers or by
an independent serialiser with bare LF and padding; frames of 0..65535 bytes on every channel) x the way the bytes
arrive (whole, byte by byte, 7, 4093, cut one byte before / after every message boundary).  WireFaults.tla
enumerates the damaged inputs (truncation and single-byte mutation at every offset, lines without end,
Content-Length values nobody can mean, garbage, too-short RTP frames).  The driver feeds them to the real connection
dispatcher (service/rtsp receive -> ReadRequest / ReadResponse / ReadPacket) and records what it yields, where the
reader stands after each message, how it fails, how much it consumed and allocated; TLC validates the records
against RtspWire.tla.
"""
import json, os, random
from vlib import Infra
LEVEL = "model_checking"


def cases(ck, cfg, label):
    r = ck.tlc("rtspwire", "WireCases", cfg, timeout=1800, label=label)
    ck.model(r)
    return r.printed("@W")


def run(ck):
    q = ck.quick()
    rnd = random.Random(ck.seed)
    # ---- the reader as a design ------------------------------------------------------------------------------
    for cfg, label in (("Reader.cfg", "reader design: five messages, every chunking from {1,2,5,13}, safety and progress"),
                       ("ReaderLong.cfg", "reader design: a head above the line limit is refused within limit + one buffer")):
        ck.model(ck.tlc("rtspwire", "MCWireReader", cfg, timeout=900, label=label))
    for cfg, inv, label in (("ReaderNegBody.cfg", "Faithful", "body read with a single Read (seeded change C14-3)"),
                            ("ReaderNegLine.cfg", "BoundedAlways", "no line limit (as found before 2bda9a1)")):
        neg = ck.tlc("rtspwire", "MCWireReader", cfg, must_pass=False, timeout=900, label="negative control: " + label)
        if inv not in neg.violated:
            raise Infra("negative control %s does not violate %s (violated: %s)" % (cfg, inv, neg.violated))
    single = cases(ck, "Wire_single.cfg", "every message shape alone x chunking")
    pair = cases(ck, "Wire_pair.cfg", "pairs over the reduced shape set x chunking")
    if len(single) < 3500 or len(pair) < 7000:
        raise Infra("case generation produced %d/%d" % (len(single), len(pair)))
    total = len(single) + len(pair)
    rnd.shuffle(pair)
    if q:
        pair = pair[:2500]
        triple = []
        # triples from the pair shapes without running the 257k-case enumeration
        shapes = {}
        for c in pair:
            for m in c["msgs"]:
                shapes[json.dumps(m, sort_keys=True)] = m
        sh = list(shapes.values())
        chunks = ["whole", "bytewise", "c7", "c4093", "boundary-1", "boundary+1"]
        for _ in range(1500):
            triple.append({"msgs": [rnd.choice(sh), rnd.choice(sh), rnd.choice(sh)], "chunk": rnd.choice(chunks)})
    else:
        triple = cases(ck, "Wire_triple.cfg", "triples over the reduced shape set x chunking")
        total += len(triple)
        rnd.shuffle(triple)
        triple = triple[:30000]
    allc = single + pair + triple
    # the driver is single-threaded (byte-wise delivery of 64 KiB frames is slow): run it on shards side by side
    from concurrent.futures import ThreadPoolExecutor
    nsh = 4 if q else 12
    rnd.shuffle(allc)
    shards = [allc[i::nsh] for i in range(nsh)]

    def one(i):
        tri = os.path.join(ck.tmp, "c14_%d.ndjson" % i)
        o2i = os.path.join(ck.tmp, "c14_out_%d.json" % i)
        ck.run_driver("./c14", "^TestWire$", {"VERIF_IN": ck.write_lines("c14_in_%d.ndjson" % i, shards[i]), "VERIF_OUT": tri, "VERIF_OUT2": o2i}, timeout=3400)
        return tri, ck.read_result(o2i)
    with ThreadPoolExecutor(max_workers=nsh) as ex:
        parts = list(ex.map(one, range(nsh)))
    res = {"cases": sum(p[1]["cases"] for p in parts), "messages": sum(p[1]["messages"] for p in parts)}
    if res["cases"] != len(allc):
        raise Infra("driver consumed %d of %d cases" % (res["cases"], len(allc)))
    # one trace: case numbers are per shard, so the shard index is folded into t
    tr = os.path.join(ck.tmp, "c14.ndjson")
    with open(tr, "w") as out:
        for i, (tri, _) in enumerate(parts):
            for ln in open(tri):
                e = json.loads(ln)
                e["t"] = e["t"] * nsh + i
                out.write(json.dumps(e) + "\n")
    fr = ck.tlc("rtspwire", "WireFaults", "WireFaults.cfg", timeout=900, label="fault cases")
    ck.model(fr)
    faults = fr.printed("@X")
    if len(faults) < 400:
        raise Infra("fault generation produced %d" % len(faults))
    trf = os.path.join(ck.tmp, "c14f.ndjson")
    o3 = os.path.join(ck.tmp, "c14f_out.json")
    ck.run_driver("./c14", "^TestFaults$", {"VERIF_IN": ck.write_lines("c14f_in.ndjson", faults), "VERIF_OUT": trf, "VERIF_OUT2": o3}, timeout=3400)
    res3 = ck.read_result(o3)
    if res3["runs"] < 5000:
        raise Infra("vacuous: %d fault runs" % res3["runs"])
    # messages of many sessions are emitted at the same time: sixteen goroutines encode and parse back their own
    oc = os.path.join(ck.tmp, "c14c_out.json")
    ck.run_driver("./c14", "^TestConcurrentEncode$", {"VERIF_OUT": oc}, timeout=600)
    resc = ck.read_result(oc)
    if resc["messages"] < 20000:
        raise Infra("vacuous: %d messages in the concurrent leg" % resc["messages"])
    ck.cov["concurrently_encoded_messages"] = resc["messages"]
    if resc["wrong"]:
        ck.violation("C14:message-emitted-beside-others-does-not-parse-back-to-itself",
                     "%d of %d messages encoded while other goroutines encoded theirs did not parse back to what was built; %s" % (resc["wrong"], resc["messages"], resc["sample"][:700]), resc)
    bad = []
    nrec = 0
    for path, what in ((tr, "well-formed streams"), (trf, "damaged streams")):
        n = sum(1 for _ in open(path))
        nrec += n
        rt = ck.tlc("rtspwire", "RtspWire", "RtspWire.cfg", workers=1, env={"VERIF_TRACE": path}, label="acceptance of %d records (%s)" % (n, what), timeout=3000, heap="6g")
        if rt.distinct != n + 1:
            raise Infra("trace validation consumed %d of %d" % (rt.distinct - 1, n))
        bad += rt.printed("@BAD")
    if res["messages"] < len(allc) and not bad:
        raise Infra("vacuous: %d messages yielded for %d cases" % (res["messages"], len(allc)))
    ck.cov["traces_validated_against_impl"] += len(allc) + res3["runs"]
    ck.cov["cases"] = {"enumerated": total, "singles": len(single), "pairs": len(pair), "triples": len(triple), "fault_cases": len(faults), "fault_runs": res3["runs"], "records": nrec}
    ck.cov["exhaustive"] = not q
    ck.count(len(allc) + res3["runs"], (json.dumps(c, sort_keys=True) for c in allc))
    seen = set()
    for b in bad:
        ev = b["ev"]
        key = "%s:%s:%s" % (b["why"], ev.get("fault", ev.get("kind", "")), ev.get("val", ""))
        if key in seen:
            continue
        seen.add(key)
        ck.violation(key, "%s: %s" % (b["why"], json.dumps(ev)[:500]), b)
    ck.sample({"case": allc[0], "fault_case": faults[0]})
    with open(tr) as f:
        ck.sample({"first_records": [json.loads(next(f)) for _ in range(3)]})
    ck.assumptions += ["header fields are compared as name -> values joined with ', ' (RFC 2326 / 2616 list semantics): the codec's writer joins repeated values, which is what 'the same header fields' means for multi-valued headers; Content-Length belongs to the framing and is not compared",
                       "known header names come back in their canonical spelling whatever case the peer used; unknown names are kept as sent",
                       "frames on RTP channels carry at least a 12-byte RTP header in the positive part; shorter ones are fault cases (error allowed, stream must stay positioned)",
                       "Content-Length texts that are not numbers at all (sign, exponent, hex) are only required not to make the reader panic, hang or allocate; the numeric ones from 99999999 upwards must be rejected",
                       "header sections with endless *lines* (each short) are observed but not judged: the statement names the over-long line and the absurd length"]


META = {
    "text": "WireReader.tla models the connection reader (peek four bytes, consume head and body as chunks arrive) and TLC checks Positioned / Faithful / Bounded and progress for every chunking, with two negative controls (body taken from a single Read; no line limit). WireCases.tla: 3.2k single-message cases (every request / response / frame shape x 6 chunkings), 7.3k pairs and 257k triples over a reduced shape set (quick: all singles, 2500 pairs, 1500 sampled triples; thorough: all pairs, 30k triples). WireFaults.tla: 510 fault cases expanding to 8k runs (truncation at every offset behind a complete message, 9 replacement bytes at every offset of the head, endless first / header / status line, 12 Content-Length texts x request / response, 400 garbage seeds in four flavours, short RTP frames). All through the real dispatcher of service/rtsp (exported under the verif tag) on a chunking reader that knows how many bytes were consumed; TLC validates against RtspWire.tla: kind, request line, status line, header fields, body, channel and payload equal, reader positioned exactly at the next message after each one, every message yielded and only EOF at the end; damaged input never panics or hangs, a truncated message is not yielded, an endless line is refused within 70 KB, an absurd Content-Length is refused without allocating it, a refused frame leaves the stream positioned.",
    "note": "Trusted: TLC, RtspWire.tla, the independent serialiser and the chunking reader in harness/c14. Four genuine defects were repaired (line limit, Content-Length bound, truncated body, see KNOWN_FINDINGS.json).",
    "technique": "TLA+ model of the reader checked by TLC with negative controls; TLA+ enumeration of the message-sequence / chunking / fault space; real dispatcher driven on a position-tracking reader; TLC trace validation against a TLA+ acceptor",
    "specs": ["rtspwire"],
}
