"""C17 - route resolution: exact, else longest directory prefix; URL joined correctly.

spec/tables/RouteTable.tla is the route table as the statement describes it.  TLC enumerates
every history of save / delete / flush / restart up to MaxHist over 7 pattern spellings x 3
URLs (and simulates longer ones); each behaviour carries the table expected after every step
and the expected result of every lookup.  The Go driver replays them on provider/route with
the real JSON provider and compares step by step; each lookup is repeated 16 times because
Go randomises map iteration, and the returned route is scribbled on to show the table does
not alias it.
"""
import os
from vlib import Infra
LEVEL = "model_checking"


def histories(ck, spec, module, cfg_ex, cfg_sim, nsim, depth, cfg_deep=None):
    r = ck.tlc(spec, module, cfg_ex, timeout=1500, label="exhaustive histories")
    ck.model(r)
    rows = r.printed("@H")
    if cfg_deep:
        rd = ck.tlc(spec, module, cfg_deep, timeout=1500, label="exhaustive long histories over a one-key alphabet")
        ck.model(rd)
        deep = rd.printed("@H")
        if len(deep) < 500:
            raise Infra("deep config produced %d histories" % len(deep))
        rows = rows + deep
    r2 = ck.tlc(spec, module, cfg_sim, simulate="num=%d" % nsim, depth=depth, timeout=900, label="simulated long histories")
    rows2 = r2.printed("@H")
    if len(rows) < 50 or len(rows2) < 5:
        raise Infra("behaviour generation produced %d+%d histories" % (len(rows), len(rows2)))
    return rows, rows2


def replay(ck, rows, test, key_prefix, kind):
    inp = ck.write_lines("%s_in.ndjson" % kind, rows)
    out = os.path.join(ck.tmp, "%s_out.json" % kind)
    ck.run_driver("./tables", "^%s$" % test, {"VERIF_IN": inp, "VERIF_OUT": out})
    res = ck.read_result(out)
    if res["histories"] != len(rows):
        raise Infra("driver consumed %d of %d histories" % (res["histories"], len(rows)))
    ck.cov["traces_validated_against_impl"] += res["histories"]
    ck.count(res["steps"] + res.get("lookups", 0), ("%s:%d" % (kind, i) for i in range(res["distinct"])))
    for m in res["mismatches"] or []:
        key = "%s:%s:%s" % (key_prefix, m["kind"], m["hist"])
        ck.violation(key, "after history [%s] step %d %s: specification expects {%s}, code gives {%s}" % (
            m["hist"], m["step"], m["kind"], m["want"], m["got"]), m)
    return res


def run(ck):
    q = ck.quick()
    rows, rows2 = histories(ck, "tables", "RouteTable", "Route2.cfg" if q else "Route3.cfg", "RouteSim.cfg",
                            40 if q else 400, 12, "RouteDeep5.cfg" if q else "RouteDeep6.cfg")
    res = replay(ck, rows + rows2, "TestRoutes", "C17", "route")
    ck.cov["exhaustive"] = True
    ck.cov["lookups"] = res["lookups"]
    # lookups beside an update of the matched route: the answer is the old or the new resolution, never a mixture
    outr = os.path.join(ck.tmp, "route_race.json")
    ck.run_driver("./tables", "^TestRouteRace$", {"VERIF_OUT": outr})
    rr = ck.read_result(outr)
    if rr["updates"] < 1000:
        raise Infra("route race leg made only %d updates" % rr["updates"])
    ck.cov["route_race"] = {"updates": rr["updates"], "inconsistent_lookups": rr["wrong"]}
    if rr["wrong"]:
        ck.violation("C17:lookup-beside-update-resolves-to-a-mixture", "%d lookups of /x/live1 while the route /x/ was switched between rtsp://a:554/x/ and rtsp://b:554/yy returned neither resolution, e.g. %s" % (rr["wrong"], rr["sample"]), rr)
    for h in (rows[len(rows) // 2], rows2[0]):
        ck.sample({"history": [(o["op"], "".join(o["pattern"]), "".join(o["url"])) for o in h["hist"]],
                   "lookups": [("".join(m["req"]), "none" if m["res"].get("none") else "".join(m["res"]["url"])) for m in h["match"]][:6]})
    ck.assumptions += ["pattern spellings, URLs and request paths are the finite sets Spellings/Urls/Reqs of RouteTable.tla",
                       "the 'pulled stream is published under the requested path' clause is observed as Route.Pattern of the lookup result here; the end-to-end part rides on C20"]


META = {
    "text": "TLC enumerates all histories of save/delete/flush/restart up to length 2 (quick) / 3 (thorough) plus simulated histories of length 9 of the route-table specification, each carrying the expected table after every step and the expected result of 12 lookups; every behaviour is replayed on the real provider/route (real JSON provider) and compared step by step, lookups repeated 16x for map-order nondeterminism.",
    "note": "Trusted: TLC, the transcription of the statement in spec/tables/RouteTable.tla (Canon, Match, JoinURL), the finite alphabets. The spec's own theorems MatchSound/MatchComplete are checked as invariants.",
    "technique": "TLA+ reference model of the route table; TLC-generated exhaustive and simulated behaviours replayed on the real code with step-wise comparison",
    "specs": ["tables"],
}
