"""C20 - on-demand pull creates, serves and cleans up streams under any camera behaviour."""
import os, random
from vlib import Infra
LEVEL = "model_checking"


def run(ck):
    q = ck.quick()
    r = ck.tlc("pull", "Pull", "Pull.cfg", workers=2, label="handshake automaton: all camera plans")
    ck.model(r)
    plans = r.printed("@P")
    if len(plans) < 500:
        raise Infra("plan generation produced %d" % len(plans))
    rnd = random.Random(ck.seed)
    rnd.shuffle(plans)
    is_slow = lambda p: any(k in ("silence", "digest-silence") for k in p["plan"])   # these cost a network timeout each
    slow = [p for p in plans if is_slow(p)]
    fast = [p for p in plans if not is_slow(p)]
    okp = [p for p in fast if p["outcome"] == "ok"]
    bad = [p for p in fast if p["outcome"] != "ok"]
    if q:
        pick = okp[:40] + bad[:90] + slow[:10]
    else:
        pick = okp + bad + slow
    # every answer kind at every step at least once (first failing step x kind), whatever the sample
    seen = set((len(p["plan"]), p["plan"][-1]) for p in pick)
    for p in plans:
        k = (len(p["plan"]), p["plan"][-1])
        if k not in seen:
            seen.add(k)
            pick.append(p)
    out = os.path.join(ck.tmp, "c20_out.json")
    ck.run_driver("./c20", "^TestPlans$", {"VERIF_IN": ck.write_lines("c20_in.ndjson", pick), "VERIF_OUT": out}, timeout=3400)
    res = ck.read_result(out)
    if not res["mismatches"] and (res["ok_plans"] < 10 or res["fail_plans"] < 30):
        raise Infra("vacuous: %s" % res)
    ck.cov["traces_validated_against_impl"] += res["plans"] + res["races"]
    ck.cov["plans_total"], ck.cov["plans_replayed"] = len(plans), res["plans"]
    ck.cov["ok_plans"], ck.cov["fail_plans"], ck.cov["concurrent_first_requests"] = res["ok_plans"], res["fail_plans"], res["races"]
    ck.cov["step_kind_pairs_covered"] = len(seen)
    ck.cov["exhaustive"] = not q
    ck.count(res["plans"] + res["races"], (" ".join(p["plan"]) for p in pick))
    for m in res["mismatches"] or []:
        key = "C20:%s:%s" % (m["kind"], m["plan"])
        ck.violation(key, "camera plan [%s]: %s: expected %s, observed %s" % (m["plan"], m["kind"], m["want"], m["got"]), m)
    ck.sample({"plan": pick[0]})
    ck.sample({"plan": pick[-1]})
    ck.assumptions += ["the camera is a scripted TCP server on 127.0.0.1; network timeouts are shortened to 450 ms through the verif-only config.VerifSetNetTimeout so that 'silence' costs half a second",
                       "requests arrive as RTSP DESCRIBE (+ SETUP/PLAY when the pull succeeded); HTTP-FLV / HLS requesters share media.GetOrCreate",
                       "leaks are read from the camera's view of its connections, stats.RtspConns and a goroutine dump filtered on rtsp.(*PullClient)"]


META = {
    "text": "Pull.tla is the handshake automaton of the on-demand pull with the camera as environment: 5 steps x 11 answer kinds (success, Basic / Digest challenge, 401 for ever, 404, 500, garbage, silence, reset, EOF, challenge followed by silence on the authenticated request) and 4 behaviours after PLAY; its invariants are the statement's obligations. TLC enumerates all 1941 camera plans with the expected outcome; a scripted camera executes them while a real RTSP client requests the routed path (quick: a seeded 140 plus every (step, kind) pair; thorough: all), and the outcome, registry, camera-side connection state, connection counter and goroutines are compared; 12 rounds of two simultaneous first requests.",
    "note": "Trusted: TLC, Pull.tla, the scripted camera and clients of harness/vclient.",
    "technique": "TLA+ automaton of the pull handshake with an adversarial camera; TLC-enumerated camera plans executed by a scripted camera against the real server",
    "specs": ["pull"],
}
