"""C08 - FLV output is valid FLV and carries the source frames faithfully."""
import json, os, random
from vlib import Infra
LEVEL = "model_checking"


def run(ck):
    q = ck.quick()
    r = ck.tlc("flvout", "FlvCases", "FlvCases.cfg", timeout=900, label="frame sequences x time base x composition offset x size x cache_gop x join position")
    ck.model(r)
    cases = r.printed("@F")
    if len(cases) < 10000:
        raise Infra("case generation produced %d" % len(cases))
    rnd = random.Random(ck.seed)
    rnd.shuffle(cases)
    total = len(cases)
    if q:
        cases = cases[:2200]
    tr = os.path.join(ck.tmp, "c08.ndjson")
    out2 = os.path.join(ck.tmp, "c08_out.json")
    ck.run_driver("./c08", "^TestFlv$", {"VERIF_IN": ck.write_lines("c08_in.ndjson", cases), "VERIF_OUT": tr, "VERIF_OUT2": out2}, timeout=3400)
    res = ck.read_result(out2)
    n = sum(1 for _ in open(tr))
    rt = ck.tlc("flvout", "FlvOut", "FlvOut.cfg", workers=1, env={"VERIF_TRACE": tr}, label="acceptance of %d parser records" % n, timeout=3000, heap="6g")
    if rt.distinct != n + 1:
        raise Infra("trace validation consumed %d of %d" % (rt.distinct - 1, n))
    ck.cov["traces_validated_against_impl"] += res["cases"]
    ck.cov["cases_total"], ck.cov["cases_replayed"], ck.cov["records"], ck.cov["stalled"] = total, len(cases), n, res["stalled"]
    ck.cov["exhaustive"] = not q
    ck.count(len(cases), (json.dumps(c) for c in cases))
    begins = {}
    for ln in open(tr):
        e = json.loads(ln)
        if e["e"] == "begin":
            begins[e["t"]] = e["case"]
    seen = set()
    for b in rt.printed("@BAD"):
        c = begins.get(b["t"], {})
        key = "%s:%s:base=%s:cto=%s:cachegop=%s" % (b["why"], c.get("codec"), c.get("base"), c.get("cto"), c.get("cachegop"))
        if key in seen:
            continue
        seen.add(key)
        ck.violation(key, "case %s: %s: %s" % (json.dumps(c), b["why"], json.dumps(b["ev"])[:300]), {"case": c, "bad": b})
    if res["stalled"] and not seen:
        raise Infra("%d cases stalled (muxer did not produce the expected number of tags)" % res["stalled"])
    ck.sample({"case": cases[0]})
    ck.assumptions += ["time bases 0, just below 2^24 ms, just below 2^32 ms; video composition offsets 0, +80 ms, -40 ms; audio lags its slot by 60 ms (so that, after a join, an audio tag can be older than the replayed key frame); payload sizes 1, 2, 65535, 70000",
                       "negative source times are not part of the input space"]


META = {
    "text": "FlvCases.tla enumerates 26k cases (H.264 and H.265, frame sequences up to 4 over key / non-key / audio, 3 time bases crossing the 24- and 32-bit millisecond boundaries, 3 composition offsets incl. PTS<DTS, 4 payload sizes up to >64 KiB, cache_gop on/off, every join position); each runs through the real media.Stream FLV path and the real flv.Writer as the HTTP-FLV handler uses it (quick: a seeded 2200). An independent FLV / AMF0 / AVC/HEVCDecoderConfigurationRecord parser turns the client's bytes into records that TLC validates against the acceptor FlvOut.tla (file header and flags, exact PreviousTagSize chain, metadata -> video configuration built from the stream's SPS/PPS -> AAC configuration -> media, length-prefixed NAL equal to the source, key flag <=> IDR, timestamps rebased to the client's first tag without wrap-around, composition offset = PTS - DTS).",
    "note": "Trusted: TLC, FlvOut.tla, the independent parser in harness/c08. The HTTP / WebSocket framing around the FLV bytes is exercised by C11.",
    "technique": "TLA+ enumeration of the input space; real FLV pipeline output parsed independently; TLC trace validation against a TLA+ acceptor",
    "specs": ["flvout"],
}
