"""C09 - MPEG-TS output is structurally valid and carries the source frames faithfully."""
import json, os, random
from vlib import Infra
LEVEL = "model_checking"


def run(ck):
    q = ck.quick()
    r = ck.tlc("tsout", "TsCases", "TsCases.cfg", timeout=900, label="frame cases: every size 1..600 and around 65535 x kind x time x pts/dts")
    ck.model(r)
    cases = r.printed("@T")
    if len(cases) < 5000:
        raise Infra("case generation produced %d" % len(cases))
    rnd = random.Random(ck.seed)
    rnd.shuffle(cases)
    total = len(cases)
    if q:
        big = [c for c in cases if c[0]["size"] > 1000]
        small = [c for c in cases if c[0]["size"] <= 1000]
        cases = small[:2600] + big[:40]
    tr = os.path.join(ck.tmp, "c09.ndjson")
    out2 = os.path.join(ck.tmp, "c09_out.json")
    ck.run_driver("./c09", "^TestTs$", {"VERIF_IN": ck.write_lines("c09_in.ndjson", cases), "VERIF_OUT": tr, "VERIF_OUT2": out2}, timeout=3000)
    res = ck.read_result(out2)
    n = sum(1 for _ in open(tr))
    rt = ck.tlc("tsout", "TsOut", "TsOut.cfg", workers=1, env={"VERIF_TRACE": tr}, label="acceptance of %d demultiplexer records" % n, timeout=3000, heap="6g")
    if rt.distinct != n + 1:
        raise Infra("trace validation consumed %d of %d" % (rt.distinct - 1, n))
    if res["pes"] < len(cases) * 9 // 10 and not rt.printed("@BAD"):
        raise Infra("vacuous: %d PES packets for %d frames" % (res["pes"], len(cases)))
    ck.cov["traces_validated_against_impl"] += res["batches"]
    ck.cov["frame_cases_total"], ck.cov["frame_cases_replayed"], ck.cov["ts_records"] = total, len(cases), n
    ck.cov["exhaustive"] = not q
    ck.count(len(cases), (json.dumps(c) for c in cases))
    # the stream as it is written for HLS: packetisers -> segment generator (audio batched per ~100 ms), with the
    # parameter sets in the SDP or arriving after the packetiser was built, at three positions of the time line
    trh = os.path.join(ck.tmp, "c09_hls.ndjson")
    outh = os.path.join(ck.tmp, "c09_hls_out.json")
    ck.run_driver("./c09", "^TestTsHls$", {"VERIF_IN": ck.write_lines("c09_in2.ndjson", cases[:600]), "VERIF_OUT": trh, "VERIF_OUT2": outh}, timeout=1200)
    resh = ck.read_result(outh)
    nh = sum(1 for _ in open(trh))
    rth = ck.tlc("tsout", "TsOut", "TsOut.cfg", workers=1, env={"VERIF_TRACE": trh}, label="acceptance of %d streams through the HLS segment generator (%d segments)" % (nh, resh["segments"]), timeout=900)
    if rth.distinct != nh + 1 or nh != resh["runs"]:
        raise Infra("HLS-path validation consumed %d of %d" % (rth.distinct - 1, nh))
    ck.cov["traces_validated_against_impl"] += nh
    ck.cov["hls_path"] = resh
    seen = set()
    for b in rt.printed("@BAD") + rth.printed("@BAD"):
        if b["why"] in seen:
            continue
        seen.add(b["why"])
        ck.violation("%s" % b["why"], "%s: %s" % (b["why"], json.dumps(b["ev"])[:400]), b)
    ck.sample({"frame_case": cases[0]})
    with open(tr) as f:
        ck.sample({"first_records": [json.loads(next(f)) for _ in range(6)]})
    ck.assumptions += ["payload bytes contain no start-code patterns (the HLS muxer does not insert emulation prevention; source NAL units are already escaped)",
                       "frames with an empty payload are C07 territory"]


META = {
    "text": "TsCases.tla enumerates the packetiser's input space (every payload size 1..600 - all residues modulo 184 with and without the key-frame adaptation field and with 14/19-byte PES headers - and sizes around the 16-bit PES length limit, x key / non-key / audio x PTS=DTS / PTS!=DTS x timestamps 0, small, just below 2^33): 11k cases (quick replays a seeded 2640). The real mpegts.Muxer + Writer produce the stream; an independent TS/PSI/PES/ADTS/Annex-B demultiplexer turns it into per-packet and per-PES records; TLC validates them against the acceptor TsOut.tla (188-byte packets, PAT/PMT first with CRC and PIDs, continuity, unit starts, adaptation-field arithmetic, PES length, PTS/DTS, random access + PCR on key frames, access-unit prefix, byte fidelity). A second driver sends 6-second streams (25 fps video, variable-size AAC frames) through the packetisers into the real HLS segment generator - which batches about 100 ms of audio into one PES - reads every completed segment back and demultiplexes it with harness/tsdemux; the parameter sets are in the SDP or are filled in after the packetiser was built (in-band sets), and the streams sit at 0, at the 33-bit wrap and at 28.5 h of source time.",
    "note": "Trusted: TLC, TsOut.tla, the independent demultiplexer in harness/c09 (incl. its CRC-32/MPEG-2).",
    "technique": "TLA+ enumeration of the packetiser's case analysis; real muxer output demultiplexed independently; TLC trace validation against a TLA+ acceptor",
    "specs": ["tsout"],
}
