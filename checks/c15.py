"""C15 - codec parameter parsing is spec-correct and total on arbitrary bytes.

ParamCases.tla enumerates the optional-syntax space of the H.264 SPS, the H.265 SPS and VPS and the MPEG-4
AudioSpecificConfig as vectors of branch choices; an independent bit-exact encoder (harness/c15/enc.go, written
from the syntax tables of the standards) turns each vector into a NAL unit / configuration, the real decoders read
it back - directly and through an SDP (sdp.ParseMetadata, the path media.NewStream takes) - and TLC validates what
they report against ParamProp.tla, which holds the standards' derivations (cropping units from ChromaArrayType
and field coding, conformance window units, frame rate formulas, fixed-rate flag, SBR / PS sampling rate, channel
table).  A second driver feeds damaged and arbitrary bytes and records panics / hangs / usability of the stream.
"""
import json, os, random
from vlib import Infra
LEVEL = "model_checking"


def run(ck):
    q = ck.quick()
    allc = []
    counts = {}
    for fam, floor in (("h264", 16000), ("hevc", 43000), ("vps", 70), ("asc", 1000)):
        r = ck.tlc("params", "ParamCases", "Param_%s.cfg" % fam, timeout=1800, label="syntax-branch space: " + fam)
        ck.model(r)
        rows = r.printed("@P")
        if len(rows) < floor:
            raise Infra("%s: case generation produced %d" % (fam, len(rows)))
        counts[fam] = len(rows)
        allc.append(rows)
    rnd = random.Random(ck.seed)
    flat = [c for rows in allc for c in rows]
    tr = os.path.join(ck.tmp, "c15.ndjson")
    o2 = os.path.join(ck.tmp, "c15_out.json")
    ck.run_driver("./c15", "^TestParams$", {"VERIF_IN": ck.write_lines("c15_in.ndjson", flat), "VERIF_OUT": tr, "VERIF_OUT2": o2}, timeout=3000)
    res = ck.read_result(o2)
    if res["cases"] != len(flat):
        raise Infra("driver consumed %d of %d cases" % (res["cases"], len(flat)))
    bases = []
    for rows in allc:
        rr = list(rows)
        rnd.shuffle(rr)
        bases += rr[:(6 if q else 120)]
    trt = os.path.join(ck.tmp, "c15t.ndjson")
    o3 = os.path.join(ck.tmp, "c15t_out.json")
    ck.run_driver("./c15", "^TestTotal$", {"VERIF_IN": ck.write_lines("c15t_in.ndjson", bases), "VERIF_OUT": trt, "VERIF_OUT2": o3}, timeout=3400)
    res3 = ck.read_result(o3)
    if res3["runs"] < 5000:
        raise Infra("vacuous: %d damaged-input runs" % res3["runs"])
    bad, nrec = [], 0
    for path, what in ((tr, "encoded parameter sets"), (trt, "damaged and arbitrary bytes")):
        n = sum(1 for _ in open(path))
        nrec += n
        rt = ck.tlc("params", "ParamProp", "ParamProp.cfg", workers=1, env={"VERIF_TRACE": path}, label="acceptance of %d records (%s)" % (n, what), timeout=3000, heap="6g")
        if rt.distinct != n + 1:
            raise Infra("trace validation consumed %d of %d" % (rt.distinct - 1, n))
        bad += rt.printed("@BAD")
    ck.cov["traces_validated_against_impl"] += len(flat) + res3["runs"]
    ck.cov["cases"] = dict(counts, damaged_runs=res3["runs"], records=nrec)
    ck.cov["exhaustive"] = True
    ck.count(len(flat) + res3["runs"], (json.dumps(c, sort_keys=True) for c in flat))
    seen = set()
    for b in bad:
        ev = b["ev"]
        c = ev.get("case", {})
        # one finding per clause and per value of the dimensions that matter for it
        dims = {k: c.get(k) for k in ("prof", "chroma", "fmo", "crop", "conf", "vui", "scaling", "rps", "maxsub", "ordering", "mode", "chan", "timing") if k in c}
        key = "%s:%s" % (b["why"], json.dumps(dims, sort_keys=True) if len(seen) < 12 else "...")
        if key in seen:
            continue
        seen.add(key)
        ck.violation(key, "%s: %s" % (b["why"], json.dumps(ev)[:600]), b)
    ck.sample({"case": flat[0]})
    with open(tr) as f:
        ck.sample({"first_record": json.loads(next(f))})
    ck.assumptions += ["the H.265 fixed-rate flag is not judged: the standard has no such VUI flag (the code reports 'frame rate known')",
                       "picture sizes stay below 65536 and within level limits; values the case vector does not fix (ids, bit depths, log2 sizes, HRD numbers) take plausible values whose Exp-Golomb widths vary with the case index",
                       "AAC: object types 2, 5 and 29 with GASpecificConfig; ALS / ELD specific configurations are not generated; a PS stream's channel count is the channelConfiguration table value",
                       "SDP leg for AAC uses a conformant rtpmap (clock rate = the rate the configuration stands for; channel count given, or omitted for mono)",
                       "memory allocated while decoding arbitrary bytes is not judged (the statement names panics, loops and out-of-bounds reads)"]


META = {
    "text": "ParamCases.tla: 16.5k H.264 SPS vectors (profile class incl. stereo, chroma format x separate planes, scaling matrix none / flags only / lists with signed deltas / early-ended list, POC type 0/1/2 with signed offsets, frame / field / MBAFF, cropping, VUI none / fixed 25 / NTSC / everything incl. both HRDs / 32-bit tick counts, two sizes), 43k H.265 SPS vectors (sub-layers x ordering info x sub-layer PTL, chroma, conformance window, scaling list data, PCM, short-term RPS plain / inter-predicted / chained, long-term, VUI none / timing / timing+HRD with sub-picture parameters / everything / POC-proportional), 72 VPS vectors, 1064 AudioSpecificConfig vectors (LC, hierarchical SBR / PS, sync-extension SBR / no SBR / SBR+PS, trailing bits, 13 indexed and explicit 24-bit rates, 7 channel configurations). All are encoded bit-exactly (emulation prevention included), decoded by the real decoders and via sdp.ParseMetadata, and the reported width / height / frame rate / fixed flag / sample rate / channels are validated by TLC against the standards' formulas in ParamProp.tla. 10k+ damaged inputs (every truncation, bit flips, byte replacements, random / all-ones / all-zeros strings) must neither panic nor hang, and a stream built from an SDP carrying them must still relay RTP.",
    "note": "Nine genuine defects were repaired (see KNOWN_FINDINGS.json). Trusted: TLC, ParamProp.tla as transcription of the standards' derivations, the independent encoders in harness/c15/enc.go.",
    "technique": "TLA+ enumeration of the syntax-branch space and TLA+ transcription of the standards' derivations; independent bit-exact encoder; real decoders; TLC trace validation",
    "specs": ["params"],
}
