"""C01 - fan-out delivers every packet once, in order, unmodified, to every consumer."""
from checks import fanout_common as fc
LEVEL = "model_checking"


def run(ck):
    q = ck.quick()
    fc.run_family(ck, "C01", ["deliver2", "stop3", "flv2", "hevc2"] if q else list(fc.fs.SCENARIOS),
                  ["C01"], 200 if q else 2000, 600 if q else 20000)


META = {
    "text": "Fanout.tla models the publisher, joiners, consumer goroutines, stoppers and closer of one stream at the grain of the verif hook points; TLC checks it exhaustively against the delivery invariants of FanoutProp (order, at most once, no gap between replay and live, completeness, independence from other consumers), generates schedules (random complete behaviours, edge-cover sample, counterexamples of the model with each fix switched off) that the gate scheduler replays on the real media.Stream, and validates the recorded API-level traces against the property-level specification.",
    "note": "Trusted: TLC, FanoutProp.tla as transcription of the statement, the gate scheduler (one process runs between two hooks; quiescence from goroutine states), recording consumers (payload compared byte-wise with a copy taken before publication). Transport adapters (TCP/UDP/WS/FLV writers) are covered by the server-level checks, not here.",
    "technique": "TLA+ implementation-level model checked by TLC against property invariants; TLC-generated schedules replayed on real code via hook gates; TLC trace validation (property level and step level)",
    "specs": ["fanout"],
}
