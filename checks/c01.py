"""C01 - fan-out delivers every packet once, in order, unmodified, to every consumer."""
import json, os
from checks import fanout_common as fc
from vlib import Infra
LEVEL = "model_checking"


def transports(ck, prefix="C01:"):
    """the statement over the real transports: numbered packets into a stream of a running server, real clients on every transport"""
    tr = os.path.join(ck.tmp, "transport.ndjson")
    o2 = os.path.join(ck.tmp, "transport_out.json")
    ck.run_driver("./transport", "^TestTransports$", {"VERIF_OUT": tr, "VERIF_OUT2": o2}, timeout=900)
    res = ck.read_result(o2)
    n = sum(1 for _ in open(tr))
    if res["items"] < 1000 * res["rounds"]:
        raise Infra("vacuous: transport clients received %d items in %d rounds" % (res["items"], res["rounds"]))
    rt = ck.tlc("fanout", "TransportTrace", "TransportTrace.cfg", workers=1, env={"VERIF_TRACE": tr}, label="acceptance of what 9 real clients received (%d records)" % n, timeout=900)
    if rt.distinct != n + 1:
        raise Infra("trace validation consumed %d of %d" % (rt.distinct - 1, n))
    if res.get("ws_writes_slowed", 0) < 100:
        raise Infra("dead driver: hook ws.write fired %d times" % res.get("ws_writes_slowed", 0))
    ck.cov["transport_leg"] = {"rounds": res["rounds"], "items_received": res["items"], "websocket_writes": res["ws_writes"], "websocket_writes_slowed_300us": res["ws_writes_slowed"], "clients": ["RTSP/TCP (leaves)", "RTSP/UDP", "ws-rtsp", "HTTP-FLV", "WSP (cut off in mid stream)", "ws-rtsp (video track only)", "WSP (video track only)", "WSP (late)", "WebSocket-FLV (late)", "RTSP/TCP (late)", "WSP (late, second)"]}
    ck.cov["traces_validated_against_impl"] += res["rounds"]
    seen = set()
    for b in rt.printed("@BAD"):
        key = "%s:%s" % (b["why"], b["c"])
        if key in seen or not b["why"].startswith(prefix):
            continue
        seen.add(key)
        ck.violation(key, "%s: client %s (%s), %d items, attached until packet %d" % (b["why"], b["c"], b["proto"], b["nitems"], b["left_at"]), b)


def multicast(ck):
    """multicast players share one proxy consumer: one of them leaving must not stop delivery to the others"""
    import os
    tr = os.path.join(ck.tmp, "mcast.ndjson")
    ck.run_driver("./transport", "^TestMulticast$", {"VERIF_OUT": tr}, timeout=600)
    n = sum(1 for _ in open(tr))
    if n < 6:
        raise Infra("multicast leg produced %d records" % n)
    rt = ck.tlc("fanout", "TransportTrace", "McastTrace.cfg", workers=1, env={"VERIF_TRACE": tr}, label="acceptance of the multicast-player leg")
    if rt.distinct != n + 1:
        raise Infra("trace validation consumed %d of %d" % (rt.distinct - 1, n))
    ck.cov["multicast_leg"] = {"records": n}
    ck.cov["traces_validated_against_impl"] += n
    seen = set()
    for b in rt.printed("@BAD"):
        if not b["why"].startswith("C01:") or b["why"] in seen:
            continue
        seen.add(b["why"])
        ck.violation(b["why"], "%s: %s" % (b["why"], b["ev"]), b)


def run(ck):
    q = ck.quick()
    fc.run_family(ck, "C01", ["deliver2", "stop3", "flv2", "hevc2"] if q else list(fc.fs.SCENARIOS),
                  ["C01"], 200 if q else 2000, 600 if q else 20000)
    transports(ck)
    multicast(ck)
    ck.assumptions += ["transport leg: the publisher keeps writing for a quarter of a second after the judged sequence, because the TCP / WebSocket / HTTP writers batch (a write is flushed at once only when the previous flush is 20 ms old, otherwise with the next write); multicast datagrams cannot be received (no multicast route in the sandbox): for multicast players the leg observes the proxy's consumer registration and the players' connections"]


META = {
    "text": "Fanout.tla models the publisher, joiners, consumer goroutines, stoppers and closer of one stream at the grain of the verif hook points; TLC checks it exhaustively against the delivery invariants of FanoutProp (order, at most once, no gap between replay and live, completeness, independence from other consumers), generates schedules (random complete behaviours, edge-cover sample, counterexamples of the model with each fix switched off) that the gate scheduler replays on the real media.Stream, and validates the recorded API-level traces against the property-level specification. A transport leg feeds a numbered sequence into a stream of a running server while real clients (RTSP/TCP, RTSP/UDP, RTSP over WebSocket, WSP control + data, HTTP-FLV, WebSocket-FLV; attached before the first packet, in mid stream, one leaving early) record what they read; TLC validates it against TransportTrace.tla (order, at most once, byte-identical packet / media payload, nothing missing between first and last).",
    "note": "Trusted: TLC, FanoutProp.tla as transcription of the statement, the gate scheduler (one process runs between two hooks; quiescence from goroutine states), recording consumers (payload compared byte-wise with a copy taken before publication). The transport leg trusts the strict clients in harness/vclient and harness/transport.",
    "technique": "TLA+ implementation-level model checked by TLC against property invariants; TLC-generated schedules replayed on real code via hook gates; TLC trace validation (property level and step level)",
    "specs": ["fanout"],
}
