"""The management-API leg shared by C03, C05, C11 and C18: MgmtApi.tla is the reference model of every HTTP call of
service/apis.go (who may call it, what it answers, what it leaves behind); TLC produces the first history per class of
call (operation, caller, arguments, expected answer and payload) and simulated histories of 25 calls; harness/api
replays them against the real HTTP server and compares every answer and the state behind it (tables through the
providers, streams and consumers through the media centre)."""
import json, os
from vlib import Infra

# which property a deviation belongs to
def prop_of(m):
    op, kind = m["op"], m["kind"]
    streams = op in ("listStreams", "getStream", "stopStream", "stopConsumer")
    if kind == "refused-call-changed-state":
        return "C11"
    if kind == "status":
        refused = ("401", "403")
        if m["want"] in refused or m["got"].split(" ")[0] in refused:
            return "C11"
        return "C05" if streams else "C18"
    if kind in ("consumer-not-released", "other-consumer-closed"):
        return "C03"
    if kind == "state-after":
        return "C03" if op == "stopConsumer" else "C05"
    return "C05" if streams else "C18"      # payload, page, routes-after, users-after


def api_leg(ck, prop):
    q = ck.quick()
    r2 = ck.tlc("api", "MCMgmtApi", "Api2.cfg", timeout=900, label="management API: all histories of 2 calls; refused calls change nothing")
    ck.model(r2)
    re_ = ck.tlc("api", "MCMgmtApi", "ApiEdgesQ.cfg" if q else "ApiEdges.cfg", workers=1, timeout=1800, label="management API: first history per class of call")
    ck.model(re_)
    edges = re_.printed("@A")
    rs = ck.tlc("api", "MCMgmtApi", "ApiSim.cfg", workers=1, simulate="num=%d" % (2 if q else 30), depth=26, timeout=900, label="management API: simulated histories of 25 calls")
    sims = rs.printed("@A")
    if len(edges) < 300 or len(sims) < 50:
        raise Infra("management API generation produced %d/%d histories" % (len(edges), len(sims)))
    if q:
        sims = sims[:400]
    allh = edges + sims
    out = os.path.join(ck.tmp, "api_out.json")
    ck.run_driver("./api", "^TestApi$", {"VERIF_IN": ck.write_lines("api_in.ndjson", allh), "VERIF_OUT": out}, timeout=3000)
    res = ck.read_result(out)
    if res["histories"] != len(allh) and not res["mismatches"]:
        raise Infra("API driver ran %d of %d histories" % (res["histories"], len(allh)))
    ck.cov["traces_validated_against_impl"] += res["histories"]
    ck.cov["management_api"] = {"histories": res["histories"], "calls": res["calls"], "edge_classes": len(edges), "by_operation": res["by_op"]}
    ck.count(res["calls"], (json.dumps(h[-1], sort_keys=True) for h in edges))
    others = 0
    for m in res["mismatches"] or []:
        p = prop_of(m)
        if p != prop:
            others += 1
            continue
        key = "%s:api:%s:%s" % (p, m["op"], m["kind"])
        ck.violation(key, "management API, history [%s], call %d (%s): %s: the reference model requires %s, the server gives %s" % (
            m["hist"][-400:], m["step"] + 1, m["op"], m["kind"], m["want"][:300], m["got"][:300]), m)
    if others:
        ck.notes.append("%d deviations of the management API belong to other properties' checks (C03 / C05 / C11 / C18)" % others)
    ck.assumptions += ["management API: listing streams and reading one stream's information is open to every authenticated user (service/apis.go roleInterceptor says so explicitly); everything else is for administrators",
                       "management API: names and patterns are written as stored or with a capital letter (the same entry is meant); passwords are set on creation and on update only with update_password=1; login succeeds exactly with the password the user has now",
                       "management API: an empty page of the stream listing carries an empty next token while the route and user listings repeat the token given (modelled as found, not judged)"]
