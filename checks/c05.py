"""C05 - one live stream per path; replace / unregister / idle-close keep the registry consistent.

Registry.tla is the registry as the statement describes it (sequential reference model with the
statement's clauses as invariants). TLC produces (a) every history up to a bound, (b) the edge cover of
the abstract state graph (one shortest history per (state, operation) pair) and (c) simulated long
histories, each carrying what Get (for every spelling), Count, Infos, the streams' closed flags and the
consumers' released flags must be after every operation; the Go driver replays them on the real media
package and compares step by step.  RegistRace.tla models two concurrent Regist calls at the grain of
the hook points; its schedules are replayed through the gate scheduler on media.Regist and on two
concurrent media.GetOrCreate calls (fake pull factory), and TLC validates the final observations.
"""
import json, random, os, random
from vlib import Infra
LEVEL = "model_checking"


def registry_histories(ck, prop, q, kinds=None, edge_sample=2500):
    """replays Registry.tla histories on the real registry; mismatches whose kind starts with one of `kinds`
    (all when None) are reported for property `prop`"""
    r = ck.tlc("registry", "Registry", "Reg3.cfg" if q else "Reg4.cfg", timeout=900, label="registry: exhaustive histories")
    ck.model(r)
    rows = r.printed("@H")
    re_ = ck.tlc("registry", "Registry", "RegEdges.cfg", timeout=900, label="registry: edge cover of the abstract state graph")
    ck.model(re_)
    edges = re_.printed("@H")
    total_edges = len(edges)
    rnd = random.Random(ck.seed)
    rnd.shuffle(edges)
    if q:
        # stratified by the operation the history ends with: the rare ones (idle close) get the larger share
        quota = {"idle": edge_sample // 4}
        rest = (edge_sample - quota["idle"]) // 6
        taken, cnt = [], {}
        for e in edges:
            op = e["hist"][-1]["op"]
            if cnt.get(op, 0) < quota.get(op, rest):
                cnt[op] = cnt.get(op, 0) + 1
                taken.append(e)
        edges = taken
    rs = ck.tlc("registry", "Registry", "RegSim.cfg", simulate="num=%d" % (30 if q else 400), depth=16, timeout=900, label="registry: simulated long histories")
    sims = rs.printed("@H")
    # three generations of one path (a path taken over twice while the displaced streams still have consumers)
    rg = ck.tlc("registry", "Registry", "RegClassGen.cfg", workers=1, timeout=1800, label="registry: three generations of one path, first history per class of step (operation x every stream's status / consumers / mapping)")
    ck.model(rg)
    gen = rg.printed("@H")
    if len(gen) < 1000:
        raise Infra("three-generation cover produced %d histories" % len(gen))
    if q:  # every shutdown / unregist / close class, a seeded sample of the rest
        keep = [h for h in gen if h["hist"][-1]["op"] in ("shutdown", "unregist", "close")]
        rest = [h for h in gen if h["hist"][-1]["op"] not in ("shutdown", "unregist", "close")]
        rnd2 = random.Random(ck.seed + 5)
        rnd2.shuffle(rest)
        gen = keep + rest[:300]
    sims += gen
    if len(rows) < 50 or len(edges) < 500 or len(sims) < 5:
        raise Infra("generation produced %d/%d/%d histories" % (len(rows), len(edges), len(sims)))
    allh = rows + edges + sims
    out = os.path.join(ck.tmp, "reg_out.json")
    ck.run_driver("./registry", "^TestHistories$", {"VERIF_IN": ck.write_lines("reg_in.ndjson", allh), "VERIF_OUT": out}, timeout=3000)
    res = ck.read_result(out)
    if res["histories"] != len(allh):
        raise Infra("driver consumed %d of %d histories" % (res["histories"], len(allh)))
    ck.cov["traces_validated_against_impl"] += res["histories"]
    ck.cov["registry_edge_cover"] = {"edges_total": total_edges, "replayed": len(edges)}
    ck.count(res["steps"], ("h%d" % i for i in range(res["distinct"])))
    for m in res["mismatches"] or []:
        if kinds and not any(m["kind"].startswith(k) for k in kinds):
            continue
        key = "%s:%s:%s" % (prop, m["kind"], m["hist"])
        ck.violation(key, "after history [%s] step %d: %s: specification expects %s, code gives %s" % (m["hist"], m["step"], m["kind"], m["want"], m["got"]), m)
    h = sims[0]["hist"]
    ck.sample({"registry_history": [(o["op"], o["s"], o["k"], o["flag"]) for o in h], "expected_after_last": h[-1]["obs"]})


def run(ck):
    q = ck.quick()
    registry_histories(ck, "C05", q)

    # races -------------------------------------------------------------------------------
    neg = ck.tlc("registry", "RegistRace", "RaceAsFound.cfg", workers=1, must_pass=False, label="negative control: Load-then-Store Regist violates OneLive")
    if "OneLive" not in neg.violated:
        raise Infra("negative control failed: the as-found Regist model does not violate OneLive")
    fx = ck.tlc("registry", "RegistRace", "RaceFixed.cfg", workers=1, label="Regist with atomic swap satisfies OneLive")
    ck.model(fx)
    g = ck.tlc("registry", "RegistRace", "RaceGen.cfg", workers=1, label="all interleavings of two Regist calls")
    scheds = g.printed("@S")
    if len(scheds) < 10:
        raise Infra("race schedule generation produced %d" % len(scheds))
    tr = os.path.join(ck.tmp, "race.ndjson")
    reps = 1 if q else 5
    ck.run_driver("./registry", "^TestRace$", {"VERIF_IN": ck.write_lines("race_in.ndjson", scheds * reps), "VERIF_OUT": tr})
    lines = open(tr).read().splitlines()
    if len(lines) != 3 * len(scheds) * reps:
        raise Infra("race driver produced %d of %d results" % (len(lines), 3 * len(scheds) * reps))
    trs = os.path.join(ck.tmp, "race_stress.ndjson")
    ck.run_driver("./registry", "^TestRaceStress$", {"VERIF_OUT": trs})
    with open(tr, "a") as f:
        f.write(open(trs).read())
    lines = open(tr).read().splitlines()
    gated = [json.loads(l) for l in lines if json.loads(l)["mode"] not in ("stress", "lookup")]
    taken = sum(g["taken"] for g in gated)
    if taken < 3 * len(gated):
        raise Infra("dead driver: race schedules took %d gate steps" % taken)
    rt = ck.tlc("registry", "RaceTrace", "RaceTrace.cfg", workers=1, env={"VERIF_TRACE": tr}, label="validation of race outcomes")
    if rt.distinct != len(lines) + 1:
        raise Infra("race validation consumed %d of %d" % (rt.distinct - 1, len(lines)))
    ck.cov["traces_validated_against_impl"] += len(lines)
    ck.cov["race_executions"] = len(lines)
    ck.count(len(lines), ("race:%s:%s" % (json.loads(l)["mode"], " ".join(json.loads(l)["schedule"])) for l in lines))
    for b in rt.printed("@BAD"):
        rec = b["rec"]
        key = "C05:race:%s:%s" % (rec["mode"], " ".join(rec["schedule"]))
        if rec["mode"] == "lookup":
            ck.violation("C05:race:lookup-misses-the-live-successor", "a retired stream was unregistered while the path was looked up: a lookup did not return the live successor, or Count was not 1 (round %s; live=%s closed=%s)" % (" ".join(rec["schedule"]), rec["live"], rec["closed"]), rec)
            continue
        ck.violation(key, "two concurrent %s on one path, schedule %s: mapped=%s live=%s closed=%s (exactly one live stream expected)" % (
            rec["mode"], " ".join(rec["schedule"]), rec["mapped"], rec["live"], rec["closed"]), rec)
    ck.sample({"race": json.loads(lines[len(lines) // 2])})
    ck.assumptions += ["three stream objects (two on one canonical path, created with differently spelled paths), consumer kinds rtp and flv",
                       "idle task evaluated through the verif-only media.VerifIdleCheck with period 0 (no recent HLS access) or 1 h (recent)",
                       "a consumer's release is awaited for up to 3 s because it completes in its delivery goroutine; only its eventual occurrence is judged"]

    # the management API (administrative delete / stop, listings, table edits, who may call what)
    from checks import api_common
    api_common.api_leg(ck, "C05")

META = {
    "text": "TLC enumerates every history up to length 3 (quick) / 4 (thorough) of the registry reference model, the complete edge cover of its abstract state graph (660 states, 9212 (state, operation) pairs; quick replays a seeded sample of 2500) and simulated histories of length 12, with the expected API answers after every step; all are replayed on the real media package. Two concurrent registrations / on-demand pulls are explored through every interleaving of the hook points and the outcomes validated by TLC.",
    "note": "Trusted: TLC, Registry.tla/RegistRace.tla as transcription of the statement, the gate scheduler for the races. On-demand pull uses a fake PullStreamFactory that registers synchronously; the real RTSP pull client is C20.",
    "technique": "TLA+ reference model of the registry; TLC-generated histories (exhaustive, edge cover, simulation) replayed on real code with step-wise comparison; TLC-generated race schedules replayed through hook gates and TLC validation of outcomes",
    "specs": ["api", "registry"],
}
