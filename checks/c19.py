"""C19 - port multiplexing routes each connection to the right protocol, losing no byte.

Sniff.tla models the sniffing reader of network/socket/listener step by step (one action per
Read inside a matcher's io.ReadFull, startSniffing/doneSniffing resets, the service's reads) and
TLC checks, for every write segmentation (first <=3 segments from {1,2,7,8,9,15,16,17}) x service
read size x stream class, that the service reads positions 1..N in order, once, and that the
right service (or nobody) gets the connection.  The same run prints every plan; Lines.tla prints
the expected service for every first line of the method/target/version grammar (+ junk
prefixes).  The Go driver runs plans x lines through the real listener with the real RTSP and
HTTP matchers over net.Pipe connections (exact segmentation) and compares bytes and service.
"""
import os
from vlib import Infra
LEVEL = "model_checking"


def run(ck):
    q = ck.quick()
    r = ck.tlc("sniff", "Sniff", "SniffQuick.cfg" if q else "Sniff.cfg", timeout=1200, label="sniffer model, all plans")
    ck.model(r)
    plans = r.printed("@P")
    rl = ck.tlc("sniff", "Lines", "Lines.cfg", workers=1, label="first-line classification table")
    ck.model(rl)
    lines = rl.printed("@L")
    if len(plans) < 100 or len(lines) < 500:
        raise Infra("generation produced %d plans, %d lines" % (len(plans), len(lines)))
    out = os.path.join(ck.tmp, "c19_out.json")
    ck.run_driver("./c19", "^TestMux$", {"VERIF_PLANS": ck.write_lines("plans.ndjson", plans),
                                         "VERIF_LINES": ck.write_lines("lines.ndjson", lines), "VERIF_OUT": out}, timeout=3000)
    res = ck.read_result(out)
    early = len(res["mismatches"] or []) >= 12      # the driver stops early once it has enough witnesses
    if not early and (res["connections"] < res["plans"] or res["compared"] < res["connections"] // 3):
        raise Infra("driver ran %d connections (%d compared) for %d plans" % (res["connections"], res["compared"], res["plans"]))
    for c in ("rtsp", "http", "closed"):
        if not early and res["classes"].get(c, 0) == 0:
            raise Infra("vacuous: no compared connection of class %s" % c)
    ck.cov["traces_validated_against_impl"] += res["connections"] + res["silent"]
    ck.cov["connections"] = res["connections"]
    ck.cov["compared_connections"] = res["compared"]
    ck.cov["classes"] = res["classes"]
    ck.cov["plans"] = res["plans"]
    ck.cov["lines"] = res["lines"]
    ck.count(res["connections"], ("plan%d" % i for i in range(res["plans"])))
    ck.sample({"plan": plans[len(plans) // 3], "line": lines[len(lines) // 3]})
    ck.sample({"plan": plans[-1], "line": lines[7]})
    for m in res["mismatches"] or []:
        key = "C19:%s:%s" % (m["kind"], m["line"])
        ck.violation(key, "first line %s, client writes %s, service read size %d, payload %d: %s expected %s, got %s" % (
            m["line"], m["segs"], m["rsize"], m["paylen"], m["kind"], m["want"], m["got"]), m)
    ck.assumptions += ["write segmentation is exact because connections are net.Pipe pairs fed through the verif-only listener.VerifNew; one leg over loopback TCP belongs to the server-level checks",
                       "compared lines: well-formed RTSP request lines, well-formed HTTP request lines, every OPTIONS line, junk methods and junk prefixes; a token that merely starts with a method name (PLAYX) and protocol-inconsistent lines are run but not compared",
                       "silence: no byte, or a strict proper prefix of a method, then nothing until the sniff timeout (150 ms listener)"]


META = {
    "text": "TLC checks the step-level model of the sniffing reader (Sniff.tla) exhaustively over write segmentations x read sizes x stream classes (63k states thorough) against the statement's invariants (in order, once, complete, right service), and prints every plan; Lines.tla gives the expected service for 1040 first lines. The driver runs plans x lines through the real listener with the real RTSP/HTTP matchers over in-memory pipes and compares the bytes each service read with the bytes the client wrote, and the service chosen.",
    "note": "Trusted: TLC, Sniff.tla/Lines.tla as transcriptions of the statement, net.Pipe for exact segmentation, the verif-only constructor listener.VerifNew (same field values as listener.New).",
    "technique": "TLA+ step-level model of the sniffing multiplexer checked by TLC; TLC-generated connection plans and classification table replayed on the real listener",
    "specs": ["sniff"],
}
