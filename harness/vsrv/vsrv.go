//go:build verif

// Package vsrv runs one in-process ipchub server (RTSP + HTTP/WebSocket on one multiplexed port) on
// 127.0.0.1:0 for the server-level conformance drivers.
package vsrv

import (
	"context"
	"sync"
	"time"

	"github.com/cnotch/ipchub/config"
	"github.com/cnotch/ipchub/service"
	"github.com/cnotch/xlog"
)

// Server is the running instance.
type Server struct {
	Addr string
	Svc  *service.Service
	stop func()
}

var (
	mu  sync.Mutex
	cur *Server
)

// Start starts (once per process) the server. auth / cacheGop configure it; SetAuth changes them later.
func Start(auth, cacheGop bool) (*Server, error) {
	mu.Lock()
	defer mu.Unlock()
	config.VerifSet(auth, cacheGop, 5, "")
	if cur != nil {
		return cur, nil
	}
	svc, err := service.NewService(context.Background(), xlog.L())
	if err != nil {
		return nil, err
	}
	addr, stop, err := svc.VerifServe("127.0.0.1:0", 3*time.Second)
	if err != nil {
		return nil, err
	}
	cur = &Server{Addr: addr.String(), Svc: svc, stop: stop}
	return cur, nil
}

// SetConfig changes auth / cache_gop for sessions and streams created from now on.
func SetConfig(auth, cacheGop bool) { config.VerifSet(auth, cacheGop, 5, "") }
