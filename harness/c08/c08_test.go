//go:build verif

// Package c08: for every case enumerated by TLC (spec/flvout/FlvCases.tla) frames are written into a real
// media.Stream (codec.Frame -> flv.Muxer -> WriteFlvTag -> FlvCache -> consumers), an FLV client joins at the chosen
// position and writes what it is handed through the real flv.Writer exactly as the HTTP-FLV handler does; the bytes are
// parsed by the independent FLV / AMF0 / configuration-record parser below and become a trace for TLC (FlvOut.tla).
package c08

import (
	"bytes"
	"encoding/base64"
	"encoding/binary"
	"encoding/hex"
	"encoding/json"
	"fmt"
	"math/rand"
	"os"
	"sync"
	"testing"
	"time"

	"github.com/cnotch/ipchub/av/codec"
	"github.com/cnotch/ipchub/av/format/flv"
	"github.com/cnotch/ipchub/config"
	"github.com/cnotch/ipchub/media"
	"verifharness/vio"
)

const sdpAV = `v=0
o=- 0 0 IN IP4 127.0.0.1
s=x
c=IN IP4 127.0.0.1
t=0 0
m=video 0 RTP/AVP 96
a=rtpmap:96 H264/90000
a=fmtp:96 packetization-mode=1; sprop-parameter-sets=Z2QAH6zZQFAFuhAAAAMAEAAAAwPI8YMZYA==,aO+8sA==; profile-level-id=64001F
a=control:streamid=0
m=audio 0 RTP/AVP 97
a=rtpmap:97 MPEG4-GENERIC/44100/2
a=fmtp:97 profile-level-id=1;mode=AAC-hbr;sizelength=13;indexlength=3;indexdeltalength=3; config=121056E500
a=control:streamid=1
`

var spsB, _ = base64.StdEncoding.DecodeString("Z2QAH6zZQFAFuhAAAAMAEAAAAwPI8YMZYA==")
var ppsB, _ = base64.StdEncoding.DecodeString("aO+8sA==")
var ascB, _ = hex.DecodeString("121056E500")

const sdp265 = `v=0
o=- 0 0 IN IP4 127.0.0.1
s=x
c=IN IP4 127.0.0.1
t=0 0
m=video 0 RTP/AVP 96
a=rtpmap:96 H265/90000
a=fmtp:96 sprop-vps=QAEMAf//AWAAAAMAkAAAAwAAAwBdlZgJ; sprop-sps=QgEBAWAAAAMAkAAAAwAAAwBdoAKAgC0WWVmkkyuAQAAA+kAAF3AC; sprop-pps=RAHBcrRiQA==
a=control:streamid=0
m=audio 0 RTP/AVP 97
a=rtpmap:97 MPEG4-GENERIC/44100/2
a=fmtp:97 profile-level-id=1;mode=AAC-hbr;sizelength=13;indexlength=3;indexdeltalength=3; config=121056E500
a=control:streamid=1
`

var vps5, _ = base64.StdEncoding.DecodeString("QAEMAf//AWAAAAMAkAAAAwAAAwBdlZgJ")
var sps5, _ = base64.StdEncoding.DecodeString("QgEBAWAAAAMAkAAAAwAAAwBdoAKAgC0WWVmkkyuAQAAA+kAAF3AC")
var pps5, _ = base64.StdEncoding.DecodeString("RAHBcrRiQA==")

// unescape removes emulation-prevention bytes (00 00 03 -> 00 00).
func unescape(b []byte) []byte {
	var o []byte
	z := 0
	for _, x := range b {
		if z >= 2 && x == 3 {
			z = 0
			continue
		}
		if x == 0 {
			z++
		} else {
			z = 0
		}
		o = append(o, x)
	}
	return o
}

// hvccOK: HEVCDecoderConfigurationRecord (ISO/IEC 14496-15 8.3.3.1) built from this stream's parameter sets:
// version 1, the 12 profile-tier-level bytes of the VPS, 4-byte NAL lengths, and VPS / SPS / PPS arrays holding
// exactly the stream's NAL units.
func hvccOK(r []byte) bool {
	if len(r) < 23 || r[0] != 1 || r[21]&3 != 3 {
		return false
	}
	ptl := unescape(vps5[2:])[4:16]
	if !bytes.Equal(r[1:13], ptl) {
		return false
	}
	n := int(r[22])
	q := r[23:]
	found := map[byte][]byte{}
	for i := 0; i < n; i++ {
		if len(q) < 3 {
			return false
		}
		typ := q[0] & 0x3f
		cnt := int(binary.BigEndian.Uint16(q[1:]))
		q = q[3:]
		for k := 0; k < cnt; k++ {
			if len(q) < 2 {
				return false
			}
			l := int(binary.BigEndian.Uint16(q))
			if len(q) < 2+l {
				return false
			}
			if _, dup := found[typ]; dup {
				return false
			}
			found[typ] = q[2 : 2+l]
			q = q[2+l:]
		}
	}
	return len(q) == 0 && len(found) == 3 && bytes.Equal(found[32], vps5) && bytes.Equal(found[33], sps5) && bytes.Equal(found[34], pps5)
}

type flvCase struct {
	Frames   []string `json:"frames"`
	Base     string   `json:"base"`
	Cto      string   `json:"cto"`
	Size     string   `json:"size"`
	CacheGop bool     `json:"cachegop"`
	Join     int      `json:"join"`
	Codec    string   `json:"codec"`
}

type collector struct {
	mu    sync.Mutex
	w     *flv.Writer
	buf   bytes.Buffer
	media int
}

func (c *collector) Consume(p media.Pack) {
	c.mu.Lock()
	defer c.mu.Unlock()
	t := p.(*flv.Tag)
	if c.w != nil {
		c.w.WriteFlvTag(t) // what service/flv does with every tag
	}
	if !(t.IsMetadata() || t.IsH2645SequenceHeader() || t.IsAACSequenceHeader()) {
		c.media++
	}
}
func (c *collector) Close() error { return nil }
func (c *collector) count() int   { c.mu.Lock(); defer c.mu.Unlock(); return c.media }

type srcFrame struct {
	kind    string
	payload []byte
	dtsMs   int64
	ptsMs   int64
}

func waitFor(cond func() bool) bool {
	deadline := time.Now().Add(20 * time.Second)
	for !cond() {
		if time.Now().After(deadline) {
			return false
		}
		time.Sleep(100 * time.Microsecond)
	}
	return true
}

func TestFlv(t *testing.T) {
	var cases []flvCase
	vio.Lines(t, "VERIF_IN", func(raw json.RawMessage) {
		var c flvCase
		if err := json.Unmarshal(raw, &c); err != nil {
			t.Fatal(err)
		}
		cases = append(cases, c)
	})
	rng := rand.New(rand.NewSource(vio.Seed()))
	out := vio.Create(t, os.Getenv("VERIF_OUT"))
	defer out.Close()
	stalled := 0
	for ci, c := range cases {
		tid := ci + 1
		config.VerifSet(false, c.CacheGop, 5, "")
		h265 := c.Codec == "h265"
		rawsdp, vcodec := sdpAV, byte(7)
		if h265 {
			rawsdp, vcodec = sdp265, 12
		}
		st := media.NewStream(fmt.Sprintf("/c08/%d", tid), rawsdp)
		base := int64(0)
		switch c.Base {
		case "b24":
			base = 1<<24 - 70
		case "b32":
			base = 1<<32 - 300
		}
		size := map[string]int{"s1": 1, "s2": 2, "s64k": 65535, "sbig": 70000}[c.Size]
		var frames []srcFrame
		for i, k := range c.Frames {
			body := make([]byte, size)
			rng.Read(body)
			f := srcFrame{kind: k}
			switch k {
			case "key": // every kind of random-access picture: IDR (any nal_ref_idc) / the six IRAP types of HEVC
				body[0] = []byte{0x65, 0x25, 0x45}[(ci+i)%3]
				if h265 {
					body[0] = []byte{19, 20, 21, 16, 17, 18}[(ci+i)%6] << 1 // IDR_W_RADL, IDR_N_LP, CRA, BLA_W_LP, BLA_W_RADL, BLA_N_LP
				}
			case "non":
				body[0] = []byte{0x41, 0x21, 0x01, 0x61}[(ci+i)%4]
				if h265 {
					body[0] = []byte{1, 0, 3, 5, 7, 9}[(ci+i)%6] << 1 // TRAIL_R, TRAIL_N, TSA_R, STSA_R, RADL_R, RASL_R
				}
			default:
				body[0] = 0x21
			}
			f.payload = body
			f.dtsMs = base + int64(40*i)
			f.ptsMs = f.dtsMs
			if k == "aud" {
				f.ptsMs = f.dtsMs - 60 // audio lags the video a little
				if f.ptsMs < 0 {
					f.ptsMs = 0
				}
				f.dtsMs = f.ptsMs
			} else {
				switch c.Cto {
				case "ahead":
					f.ptsMs = f.dtsMs + 80
				case "behind":
					f.ptsMs = f.dtsMs - 40
					if f.ptsMs < 0 { // negative presentation times are not part of the input space
						f.ptsMs = f.dtsMs
					}
				}
			}
			frames = append(frames, f)
		}
		probe := &collector{}
		st.StartConsume(probe, media.FLVPacket, "probe")
		cl := &collector{}
		write := func(f srcFrame) {
			mt := codec.MediaTypeVideo
			if f.kind == "aud" {
				mt = codec.MediaTypeAudio
			}
			st.WriteFrame(&codec.Frame{MediaType: mt, Dts: f.dtsMs * int64(time.Millisecond), Pts: f.ptsMs * int64(time.Millisecond), Payload: f.payload})
		}
		join := func() {
			w, err := flv.NewWriter(&cl.buf, st.FlvTypeFlags())
			if err != nil {
				t.Fatal(err)
			}
			cl.w = w
			st.StartConsume(cl, media.FLVPacket, "client")
		}
		ok := true
		for i, f := range frames {
			if i == c.Join {
				join()
			}
			write(f)
			if !waitFor(func() bool { return probe.count() == i+1 }) { // the muxer has turned frame i into a tag
				ok = false
				break
			}
		}
		if c.Join >= len(frames) {
			join()
		}
		// what the client must have been handed
		first := c.Join
		if c.CacheGop && c.Join > 0 {
			for k := c.Join - 1; k >= 0; k-- {
				if frames[k].kind == "key" {
					first = k
					break
				}
			}
		}
		if c.Join > 0 && !(c.CacheGop) {
			first = c.Join
		}
		want := frames[first:]
		if c.CacheGop && c.Join > 0 && first == c.Join {
			want = frames[c.Join:] // no key frame before the join: nothing to replay
		}
		if ok && !waitFor(func() bool { return cl.count() >= len(want) }) {
			ok = false
		}
		time.Sleep(300 * time.Microsecond)
		st.Close()
		if !ok {
			stalled++
		}
		t0 := int64(0) // source time of the client's first tag
		if c.CacheGop && c.Join > 0 && first < c.Join {
			t0 = frames[first].dtsMs
		}
		cl.mu.Lock()
		data := append([]byte(nil), cl.buf.Bytes()...)
		cl.mu.Unlock()
		out.Put(map[string]interface{}{"t": tid, "e": "begin", "hasaudio": true, "case": c})
		// ---- independent parser ----
		if len(data) < 13 {
			out.Put(map[string]interface{}{"t": tid, "e": "header", "sig": "", "version": 0, "flags": 0, "wantflags": 5, "offset": 0, "prev0": -1})
			out.Put(map[string]interface{}{"t": tid, "e": "end", "media": 0, "wantmedia": len(want), "trailing": len(data)})
			continue
		}
		out.Put(map[string]interface{}{"t": tid, "e": "header", "sig": string(data[:3]), "version": int(data[3]), "flags": int(data[4]), "wantflags": 5,
			"offset": int(binary.BigEndian.Uint32(data[5:])), "prev0": int(binary.BigEndian.Uint32(data[9:]))})
		p := 13
		mi := 0
		for p+11 <= len(data) {
			typ := data[p] & 0x1f
			dsz := int(data[p+1])<<16 | int(data[p+2])<<8 | int(data[p+3])
			ts := int64(data[p+4])<<16 | int64(data[p+5])<<8 | int64(data[p+6]) | int64(data[p+7])<<24
			sid := int(data[p+8])<<16 | int(data[p+9])<<8 | int(data[p+10])
			if p+11+dsz+4 > len(data) {
				break
			}
			body := data[p+11 : p+11+dsz]
			prev := int(binary.BigEndian.Uint32(data[p+11+dsz:]))
			ev := map[string]interface{}{"t": tid, "e": "tag", "type": "other", "prevsize_ok": prev == 11+dsz, "ts": fmt.Sprint(ts), "wantts": "0", "older": false, "ts_small": ts < 1000, "ts_zero": ts == 0,
				"key": false, "wantkey": false, "cts": 0, "wantcts": 0, "intact": false, "cfg_ok": false, "streamid": sid}
			switch {
			case typ == 18:
				ev["type"] = "meta"
				ev["cfg_ok"] = bytes.HasPrefix(body, append([]byte{2, 0, 10}, []byte("onMetaData")...))
			case typ == 9 && len(body) >= 5 && body[1] == 0:
				ev["type"] = "vsh"
				r := body[5:]
				okc := len(r) >= 8+len(spsB)+3+len(ppsB) && r[0] == 1 && r[1] == spsB[1] && r[2] == spsB[2] && r[3] == spsB[3] && r[4]&3 == 3 && r[5]&0x1f == 1 &&
					int(binary.BigEndian.Uint16(r[6:])) == len(spsB) && bytes.Equal(r[8:8+len(spsB)], spsB)
				if okc {
					q := r[8+len(spsB):]
					okc = q[0] == 1 && int(binary.BigEndian.Uint16(q[1:])) == len(ppsB) && bytes.Equal(q[3:3+len(ppsB)], ppsB)
				}
				ev["cfg_ok"] = okc && body[0] == 0x17
				if h265 {
					ev["cfg_ok"] = body[0] == 0x1c && body[2] == 0 && body[3] == 0 && body[4] == 0 && hvccOK(r)
				}
			case typ == 8 && len(body) >= 2 && body[0]>>4 == 10 && body[1] == 0:
				ev["type"] = "ash"
				ev["cfg_ok"] = bytes.Equal(body[2:], ascB)
			case typ == 9 || typ == 8:
				var s *srcFrame
				if mi < len(want) {
					s = &want[mi]
				}
				mi++
				if typ == 9 {
					ev["type"] = "video"
					if len(body) >= 9 && s != nil {
						cts := int64(body[2])<<16 | int64(body[3])<<8 | int64(body[4])
						if cts&0x800000 != 0 {
							cts -= 1 << 24
						}
						ev["cts"], ev["wantcts"] = cts, s.ptsMs-s.dtsMs
						ev["key"], ev["wantkey"] = body[0]>>4 == 1, s.kind == "key"
						n := int(binary.BigEndian.Uint32(body[5:]))
						ev["intact"] = s.kind != "aud" && body[0]&0x0f == vcodec && body[1] == 1 && n == len(body)-9 && bytes.Equal(body[9:], s.payload)
					}
				} else {
					ev["type"] = "audio"
					if len(body) >= 2 && s != nil {
						ev["intact"] = s.kind == "aud" && body[0] == 0xaf && body[1] == 1 && bytes.Equal(body[2:], s.payload)
					}
				}
				if s != nil {
					src := s.dtsMs
					if src >= t0 {
						ev["wantts"] = fmt.Sprint((src - t0) & 0xffffffff)
					} else {
						ev["older"] = true
					}
				}
			}
			out.Put(ev)
			p += 11 + dsz + 4
		}
		out.Put(map[string]interface{}{"t": tid, "e": "end", "media": mi, "wantmedia": len(want), "trailing": len(data) - p})
	}
	vio.WriteJSON(t, "VERIF_OUT2", map[string]interface{}{"cases": len(cases), "stalled": stalled})
}
