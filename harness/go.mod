module verifharness

go 1.23

toolchain go1.23.5

require (
	github.com/cnotch/ipchub v0.0.0
	github.com/cnotch/scheduler v0.0.0-20200522024700-1d2da93eefc5
	github.com/cnotch/xlog v0.0.0-20201208005456-cfda439cd3a0
	pgregory.net/rapid v1.3.0
)

require (
	github.com/cnotch/apirouter v0.0.0-20200731232942-89e243a791f3 // indirect
	github.com/cnotch/loader v0.0.0-20200405015128-d9d964d09439 // indirect
	github.com/cnotch/queue v0.0.0-20201224060551-4191569ce8f6 // indirect
	github.com/emitter-io/address v1.0.0 // indirect
	github.com/gorilla/websocket v1.4.2 // indirect
	github.com/kelindar/process v0.0.0-20170730150328-69a29e249ec3 // indirect
	github.com/kelindar/rate v1.0.0 // indirect
	github.com/kelindar/tcp v1.0.0 // indirect
	github.com/pion/randutil v0.1.0 // indirect
	github.com/pion/rtp v1.6.2 // indirect
	github.com/pixelbender/go-sdp v1.1.0 // indirect
	golang.org/x/crypto v0.0.0-20201221181555-eec23a3978ad // indirect
	gopkg.in/natefinch/lumberjack.v2 v2.0.0 // indirect
)

replace github.com/cnotch/ipchub => /repo
