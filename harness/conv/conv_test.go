//go:build verif

// Package conv: the converter goroutines (RTP demuxer, FLV muxer, TS muxer) of a stream must end when the stream
// ends, whatever the interleaving of Close with the goroutine's loop.  The schedule that matters is the one the
// fan-out model calls the wake-up window: the goroutine has evaluated its loop condition and has not yet reached the
// blocking Pop when Close runs.  The hook "conv.loop" (first statement of the loop body) parks the goroutine there.
package conv

import (
	"os"
	"runtime"
	"strings"
	"sync"
	"testing"
	"time"

	"github.com/cnotch/ipchub/av/codec"
	"github.com/cnotch/ipchub/av/format/flv"
	"github.com/cnotch/ipchub/av/format/mpegts"
	"github.com/cnotch/ipchub/av/format/rtp"
	"github.com/cnotch/ipchub/av/format/sdp"
	"github.com/cnotch/ipchub/media"
	"github.com/cnotch/ipchub/utils/vhook"
	"github.com/cnotch/xlog"
	"verifharness/vio"
)

const sdpAV = "v=0\r\no=- 0 0 IN IP4 127.0.0.1\r\ns=x\r\nc=IN IP4 127.0.0.1\r\nt=0 0\r\nm=video 0 RTP/AVP 96\r\na=rtpmap:96 H264/90000\r\na=fmtp:96 packetization-mode=1; sprop-parameter-sets=Z2QAH6zZQFAFuhAAAAMAEAAAAwPI8YMZYA==,aO+8sA==\r\na=control:streamid=0\r\nm=audio 0 RTP/AVP 97\r\na=rtpmap:97 MPEG4-GENERIC/44100/2\r\na=fmtp:97 profile-level-id=1;mode=AAC-hbr;sizelength=13;indexlength=3;indexdeltalength=3; config=121056E500\r\na=control:streamid=1\r\n"

type sink struct{}

func (sink) WriteFrame(*codec.Frame) error        { return nil }
func (sink) WriteFlvTag(*flv.Tag) error           { return nil }
func (sink) WriteMpegtsFrame(*mpegts.Frame) error { return nil }

func running(marker string) int {
	buf := make([]byte, 16<<20)
	buf = buf[:runtime.Stack(buf, true)]
	n := 0
	for _, g := range strings.Split(string(buf), "\n\n") {
		if strings.Contains(g, marker) {
			n++
		}
	}
	return n
}

type closer interface{ Close() error }

func TestConverters(t *testing.T) {
	out := vio.Create(t, os.Getenv("VERIF_OUT"))
	defer out.Close()
	var video codec.VideoMeta
	var audio codec.AudioMeta
	if err := sdp.ParseMetadata(sdpAV, &video, &audio); err != nil {
		t.Fatal(err)
	}
	kinds := []struct {
		name, marker string
		mk           func() closer
	}{
		{"rtp-demuxer", "rtp.(*Demuxer).process", func() closer { d, _ := rtp.NewDemuxer(&video, &audio, sink{}, xlog.L()); return d }},
		{"flv-muxer", "flv.(*Muxer).process", func() closer { m, _ := flv.NewMuxer(&video, &audio, sink{}, xlog.L()); return m }},
		{"ts-muxer", "mpegts.(*Muxer).process", func() closer { m, _ := mpegts.NewMuxer(&video, &audio, sink{}, xlog.L()); return m }},
	}
	for tid, k := range kinds {
		for _, sched := range []string{"close-in-window", "close-while-parked"} {
			before := running(k.marker)
			var mu sync.Mutex
			var target interface{}
			arrived := make(chan struct{}, 1)
			release := make(chan struct{})
			gate := sched == "close-in-window"
			vhook.SetHandler(func(point string, obj interface{}) {
				if point != "conv.loop" {
					return
				}
				mu.Lock()
				mine := target == nil || target == obj
				if target == nil {
					target = obj
				}
				first := mine && gate
				gate = false
				mu.Unlock()
				if first {
					arrived <- struct{}{}
					<-release // parked between the loop condition and Pop
				}
			})
			c := k.mk()
			if sched == "close-in-window" {
				select {
				case <-arrived:
				case <-time.After(2 * time.Second):
					t.Fatalf("%s: the goroutine never reached the hook", k.name)
				}
				c.Close() // closed = true and the wake-up, while nobody waits
				close(release)
			} else {
				time.Sleep(20 * time.Millisecond) // the goroutine is parked in Pop
				c.Close()
			}
			ended := false
			deadline := time.Now().Add(2 * time.Second)
			for time.Now().Before(deadline) {
				if running(k.marker) <= before {
					ended = true
					break
				}
				time.Sleep(5 * time.Millisecond)
			}
			vhook.SetHandler(nil)
			out.Put(map[string]interface{}{"t": tid*2 + 1, "e": "conv", "kind": k.name, "schedule": sched, "ended": ended})
		}
	}
	// a whole stream: NewStream + Close leaves none of the three behind (free running, no gate)
	before := running(".process(")
	for i := 0; i < 200; i++ {
		media.NewStream("/conv/x", sdpAV).Close()
	}
	left := 0
	deadline := time.Now().Add(2 * time.Second)
	for time.Now().Before(deadline) {
		if left = running(".process(") - before; left <= 0 {
			left = 0
			break
		}
		time.Sleep(10 * time.Millisecond)
	}
	out.Put(map[string]interface{}{"t": 99, "e": "streams", "cycles": 200, "left": left})
}
