// Package tsdemux is an independent MPEG-TS / PSI / PES / ADTS / Annex-B reader used by the HLS and
// containment drivers.  It shares no code with av/format/mpegts: it re-derives the structure from the byte
// stream the way a player would, and reports every structural rule it finds broken (the rules are the ones
// TsOut.tla states for C09, evaluated here per segment and handed to the trace specifications as one record).
package tsdemux

import (
	"bytes"
	"encoding/binary"
	"fmt"
)

// Unit is one access unit (video) or one ADTS frame (audio).
type Unit struct {
	Pid      int
	Pts, Dts int64
	Key      bool   // video: contains an IDR slice
	Prefix   bool   // video: AUD first; for IDR also SPS and PPS before the slice
	Body     []byte // video: the last NAL unit (the sample); audio: raw AAC frame without ADTS header
	Rai      bool   // random_access_indicator on the first TS packet
	Pcr      int64  // PCR of the first packet, -1 if none
}

// Result of parsing one transport stream.
type Result struct {
	Bad   []string // structural rules broken (empty = valid)
	Video []Unit
	Audio []Unit
	Order []int // pids of the units in stream order (index into Video / Audio by running count)
}

func (r *Result) bad(f string, a ...interface{}) {
	if len(r.Bad) < 8 {
		r.Bad = append(r.Bad, fmt.Sprintf(f, a...))
	}
}

// Crc32Mpeg is CRC-32/MPEG-2.
func Crc32Mpeg(b []byte) uint32 {
	crc := uint32(0xffffffff)
	for _, x := range b {
		crc ^= uint32(x) << 24
		for i := 0; i < 8; i++ {
			if crc&0x80000000 != 0 {
				crc = crc<<1 ^ 0x04c11db7
			} else {
				crc <<= 1
			}
		}
	}
	return crc
}

func ts33(b []byte) (int64, bool) {
	ok := b[0]&1 == 1 && b[2]&1 == 1 && b[4]&1 == 1
	v := int64(b[0]>>1&7)<<30 | int64(b[1])<<22 | int64(b[2]>>1)<<15 | int64(b[3])<<7 | int64(b[4]>>1)
	return v, ok
}

// SplitAnnexB returns the NAL units between start codes.
func SplitAnnexB(b []byte) [][]byte {
	var nals [][]byte
	i, start := 0, -1
	for i+3 <= len(b) {
		if b[i] == 0 && b[i+1] == 0 && b[i+2] == 1 {
			if start >= 0 {
				end := i
				if end > start && b[end-1] == 0 {
					end--
				}
				nals = append(nals, b[start:end])
			}
			start = i + 3
			i += 3
			continue
		}
		i++
	}
	if start >= 0 {
		nals = append(nals, b[start:])
	}
	return nals
}

type pesAcc struct {
	data []byte
	rai  bool
	pcr  int64
}

// Parse demultiplexes a whole transport stream (one HLS segment). sps/pps are what key frames must be preceded by.
func Parse(data, sps, pps []byte) *Result {
	r := &Result{}
	if len(data) == 0 {
		r.bad("empty")
		return r
	}
	if len(data)%188 != 0 {
		r.bad("length %d is not a multiple of 188", len(data))
	}
	acc := map[int]*pesAcc{}
	cc := map[int]int{}
	var done []*pesAcc
	var pids []int
	flush := func(pid int) {
		if a := acc[pid]; a != nil {
			done = append(done, a)
			pids = append(pids, pid)
		}
		delete(acc, pid)
	}
	npk := 0
	pmtPid := -1
	seenPat, seenPmt := false, false
	for o := 0; o+188 <= len(data); o += 188 {
		pk := data[o : o+188]
		npk++
		if pk[0] != 0x47 {
			r.bad("packet %d: sync byte %#x", npk, pk[0])
			continue
		}
		if pk[1]&0x80 != 0 {
			r.bad("packet %d: transport_error_indicator", npk)
		}
		pid := int(pk[1]&0x1f)<<8 | int(pk[2])
		pusi := pk[1]&0x40 != 0
		afc := pk[3] >> 4 & 3
		c := int(pk[3] & 0x0f)
		if afc == 0 {
			r.bad("packet %d: adaptation_field_control 0", npk)
		}
		if prev, ok := cc[pid]; ok {
			if afc&1 != 0 && c != (prev+1)&15 {
				r.bad("packet %d pid %d: continuity %d after %d", npk, pid, c, prev)
			}
		}
		if afc&1 != 0 {
			cc[pid] = c
		}
		p := 4
		rai := false
		pcr := int64(-1)
		if afc&2 != 0 {
			afl := int(pk[4])
			if 5+afl > 188 || (afc == 3 && afl > 182) {
				r.bad("packet %d: adaptation field length %d", npk, afl)
				continue
			}
			if afl > 0 {
				fl := pk[5]
				rai = fl&0x40 != 0
				n := 1
				if fl&0x10 != 0 {
					if afl < 7 {
						r.bad("packet %d: PCR flag without room", npk)
					} else {
						pcr = int64(pk[6])<<25 | int64(pk[7])<<17 | int64(pk[8])<<9 | int64(pk[9])<<1 | int64(pk[10]>>7)
						n += 6
					}
				}
				// stuffing byte values are not examined: the statement (C09) does not constrain them, and as found the
				// writer leaves stale header bytes in the stuffing of short key-frame packets
				_ = n
			}
			p = 5 + afl
		}
		var payload []byte
		if afc&1 != 0 {
			payload = pk[p:]
		}
		switch {
		case pid == 0:
			if npk != 1 {
				// PAT may repeat, but the first packet must be one
			}
			seenPat = true
			if !pusi || len(payload) < 1 {
				r.bad("PAT without pointer")
				break
			}
			sec := payload[1+int(payload[0]):]
			if len(sec) < 12 {
				r.bad("PAT short")
				break
			}
			sl := int(sec[1]&0x0f)<<8 | int(sec[2])
			if 3+sl > len(sec) || sl < 13 || sec[0] != 0 {
				r.bad("PAT section header")
				break
			}
			body := sec[:3+sl]
			if Crc32Mpeg(body) != 0 {
				r.bad("PAT CRC")
			}
			pmtPid = int(body[10]&0x1f)<<8 | int(body[11])
		case pid == pmtPid && pmtPid > 0:
			seenPmt = true
			if !seenPat {
				r.bad("PMT before PAT")
			}
			if !pusi || len(payload) < 1 {
				r.bad("PMT without pointer")
				break
			}
			sec := payload[1+int(payload[0]):]
			if len(sec) < 16 {
				r.bad("PMT short")
				break
			}
			sl := int(sec[1]&0x0f)<<8 | int(sec[2])
			if 3+sl > len(sec) || sec[0] != 2 {
				r.bad("PMT section header")
				break
			}
			body := sec[:3+sl]
			if Crc32Mpeg(body) != 0 {
				r.bad("PMT CRC")
			}
			pil := int(body[10]&0x0f)<<8 | int(body[11])
			es := body[12+pil : len(body)-4]
			found := map[int]int{}
			for len(es) >= 5 {
				found[int(es[0])] = int(es[1]&0x1f)<<8 | int(es[2])
				n := 5 + (int(es[3]&0x0f)<<8 | int(es[4]))
				if n > len(es) {
					r.bad("PMT ES loop")
					break
				}
				es = es[n:]
			}
			if found[0x1b] != 256 || found[0x0f] != 257 {
				r.bad("PMT streams %v", found)
			}
		case pid == 256 || pid == 257:
			if !seenPat || !seenPmt {
				r.bad("packet %d: media before PAT/PMT", npk)
			}
			if pusi {
				flush(pid)
				acc[pid] = &pesAcc{rai: rai, pcr: pcr}
			}
			if a := acc[pid]; a != nil {
				a.data = append(a.data, payload...)
			} else {
				r.bad("packet %d pid %d: payload without a PES start", npk, pid)
			}
		case pid == 0x1fff:
		default:
			r.bad("packet %d: unexpected pid %d", npk, pid)
		}
	}
	if npk >= 2 {
		p0 := int(data[1]&0x1f)<<8 | int(data[2])
		p1 := int(data[189]&0x1f)<<8 | int(data[190])
		if p0 != 0 || p1 != pmtPid {
			r.bad("segment does not start with PAT, PMT (pids %d, %d)", p0, p1)
		}
	} else {
		r.bad("fewer than two packets")
	}
	// remaining PES in pid order of their start: flush in stream order is lost here, so flush by last start offset
	flush(256)
	flush(257)
	for k, a := range done {
		pid := pids[k]
		d := a.data
		if len(d) < 9 || d[0] != 0 || d[1] != 0 || d[2] != 1 {
			r.bad("pid %d: PES start code", pid)
			continue
		}
		sid := int(d[3])
		if (pid == 256 && sid != 0xe0) || (pid == 257 && sid != 0xc0) {
			r.bad("pid %d: stream id %#x", pid, sid)
		}
		pl := int(binary.BigEndian.Uint16(d[4:]))
		if pl != 0 && pl != len(d)-6 {
			r.bad("pid %d: PES_packet_length %d for %d bytes", pid, pl, len(d)-6)
		}
		if pl == 0 && pid != 256 {
			r.bad("pid %d: unbounded PES on a non-video stream", pid)
		}
		if d[6]&0xc0 != 0x80 {
			r.bad("pid %d: PES marker bits", pid)
		}
		flags, hl := d[7], int(d[8])
		if 9+hl > len(d) {
			r.bad("pid %d: PES header length", pid)
			continue
		}
		hd, es := d[9:9+hl], d[9+hl:]
		u := Unit{Pid: pid, Pts: -1, Dts: -1, Rai: a.rai, Pcr: a.pcr}
		need := 0
		switch flags >> 6 {
		case 2:
			need = 5
		case 3:
			need = 10
		default:
			r.bad("pid %d: PES without PTS", pid)
		}
		if need > len(hd) {
			r.bad("pid %d: PES header too short for its flags", pid)
			continue
		}
		if need >= 5 {
			v, ok := ts33(hd)
			if !ok || int(hd[0]>>4) != int(flags>>6) {
				r.bad("pid %d: PTS markers", pid)
			}
			u.Pts, u.Dts = v, v
		}
		if need == 10 {
			v, ok := ts33(hd[5:])
			if !ok || hd[5]>>4 != 1 {
				r.bad("pid %d: DTS markers", pid)
			}
			u.Dts = v
		}
		for _, x := range hd[need:] {
			if x != 0xff {
				r.bad("pid %d: PES header stuffing", pid)
				break
			}
		}
		if pid == 256 {
			nals := SplitAnnexB(es)
			if len(nals) == 0 {
				r.bad("video PES without NAL units")
				continue
			}
			last := nals[len(nals)-1]
			u.Body = last
			u.Key = len(last) > 0 && last[0]&0x1f == 5
			want := [][]byte{{0x09, 0xf0}}
			if u.Key {
				want = append(want, sps, pps)
			}
			u.Prefix = len(nals) == len(want)+1
			for i := 0; u.Prefix && i < len(want); i++ {
				u.Prefix = bytes.Equal(nals[i], want[i])
			}
			if u.Key && (!a.rai || a.pcr != u.Dts) {
				r.bad("key frame without random access indicator / PCR=DTS (rai %v pcr %d dts %d)", a.rai, a.pcr, u.Dts)
			}
			r.Video = append(r.Video, u)
			r.Order = append(r.Order, pid)
		} else {
			first := true
			for len(es) > 0 {
				if len(es) < 7 || es[0] != 0xff || es[1]&0xf6 != 0xf0 {
					r.bad("audio PES: ADTS sync")
					break
				}
				fl := int(es[3]&3)<<11 | int(es[4])<<3 | int(es[5]>>5)
				if fl < 7 || fl > len(es) {
					r.bad("audio PES: ADTS frame length %d of %d", fl, len(es))
					break
				}
				au := u
				if !first {
					au.Pts, au.Dts = -1, -1 // only the first frame of a PES carries a timestamp
				}
				first = false
				au.Body = es[7:fl]
				r.Audio = append(r.Audio, au)
				r.Order = append(r.Order, pid)
				es = es[fl:]
			}
		}
	}
	return r
}
