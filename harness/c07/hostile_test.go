//go:build verif

package c07

import (
	"bytes"
	"encoding/json"
	"fmt"
	"os"
	"strings"
	"sync"
	"testing"
	"time"

	"github.com/cnotch/ipchub/av/format/rtp"
	"github.com/cnotch/ipchub/media"
	"verifharness/vclient"
	"verifharness/vio"
	"verifharness/vsrv"
)

type hcase struct {
	Kind  string `json:"kind"` // "sdp" | "session"
	Class string `json:"class"`
}

func hostileSDP(class string) string {
	v := "m=video 0 RTP/AVP 96\r\na=rtpmap:96 H264/90000\r\na=fmtp:96 packetization-mode=1; sprop-parameter-sets=Z2QAH6zZQFAFuhAAAAMAEAAAAwPI8YMZYA==,aO+8sA==\r\na=control:streamid=0\r\n"
	a := "m=audio 0 RTP/AVP 97\r\na=rtpmap:97 MPEG4-GENERIC/44100/2\r\na=fmtp:97 profile-level-id=1;mode=AAC-hbr;sizelength=13;indexlength=3;indexdeltalength=3; config=121056E500\r\na=control:streamid=1\r\n"
	head := "v=0\r\no=- 0 0 IN IP4 127.0.0.1\r\ns=x\r\nc=IN IP4 127.0.0.1\r\nt=0 0\r\n"
	switch class {
	case "empty":
		return ""
	case "garbage":
		return "\x00\xff\xfe not an sdp at all \r\n\r\n===\r\n"
	case "no-media":
		return head
	case "missing-version":
		return strings.Replace(head, "v=0\r\n", "", 1) + v + a
	case "video-no-rtpmap":
		return head + "m=video 0 RTP/AVP 96\r\na=control:streamid=0\r\n" + a
	case "video-no-format":
		return head + "m=video 0 RTP/AVP\r\na=control:streamid=0\r\n" + a
	case "fmtp-garbage":
		return head + "m=video 0 RTP/AVP 96\r\na=rtpmap:96 H264/90000\r\na=fmtp:96 ;;;=,=;sprop-parameter-sets=;;\r\n" + a
	case "sprop-empty":
		return head + "m=video 0 RTP/AVP 96\r\na=rtpmap:96 H264/90000\r\na=fmtp:96 sprop-parameter-sets=\r\n" + a
	case "sprop-one-set":
		return head + "m=video 0 RTP/AVP 96\r\na=rtpmap:96 H264/90000\r\na=fmtp:96 sprop-parameter-sets=Z2QAH6zZQFAFuhAAAAMAEAAAAwPI8YMZYA==\r\n" + a
	case "sprop-not-base64":
		return head + "m=video 0 RTP/AVP 96\r\na=rtpmap:96 H264/90000\r\na=fmtp:96 sprop-parameter-sets=@@@@,####\r\n" + a
	case "sprop-garbage-base64":
		return head + "m=video 0 RTP/AVP 96\r\na=rtpmap:96 H264/90000\r\na=fmtp:96 sprop-parameter-sets=Z/////////////8=,aP//\r\n" + a
	case "sprop-one-byte":
		return head + "m=video 0 RTP/AVP 96\r\na=rtpmap:96 H264/90000\r\na=fmtp:96 sprop-parameter-sets=Zw==,aA==\r\n" + a
	case "hevc-sprop-garbage":
		return head + "m=video 0 RTP/AVP 96\r\na=rtpmap:96 H265/90000\r\na=fmtp:96 sprop-vps=QAH/////; sprop-sps=QgH/////////; sprop-pps=RAH/\r\n" + a
	case "hevc-sprop-missing":
		return head + "m=video 0 RTP/AVP 96\r\na=rtpmap:96 H265/90000\r\na=fmtp:96 sprop-vps=QAEMAf//AWAAAAMAkAAAAwAAAwBdlZgJ\r\n" + a
	case "config-odd-hex":
		return head + v + "m=audio 0 RTP/AVP 97\r\na=rtpmap:97 MPEG4-GENERIC/44100/2\r\na=fmtp:97 mode=AAC-hbr; config=121\r\n"
	case "config-garbage":
		return head + v + "m=audio 0 RTP/AVP 97\r\na=rtpmap:97 MPEG4-GENERIC/44100/2\r\na=fmtp:97 mode=AAC-hbr; config=FFFFFFFFFFFFFFFF\r\n"
	case "config-empty":
		return head + v + "m=audio 0 RTP/AVP 97\r\na=rtpmap:97 MPEG4-GENERIC/44100/2\r\na=fmtp:97 mode=AAC-hbr; config=\r\n"
	case "audio-zero-rate":
		return head + v + "m=audio 0 RTP/AVP 97\r\na=rtpmap:97 MPEG4-GENERIC/0/0\r\na=fmtp:97 mode=AAC-hbr; config=121056E500\r\n"
	case "unknown-codec":
		return head + "m=video 0 RTP/AVP 96\r\na=rtpmap:96 VP9/90000\r\n" + "m=audio 0 RTP/AVP 0\r\na=rtpmap:0 PCMU/8000\r\n"
	case "thousand-media":
		return head + strings.Repeat(v+a, 500)
	case "long-line":
		return head + "a=" + strings.Repeat("x", 200000) + "\r\n" + v + a
	case "nul-bytes":
		return head + strings.Replace(v, "H264", "H2\x0064", 1) + a
	case "negative-numbers":
		return head + "m=video -1 RTP/AVP -96\r\na=rtpmap:-96 H264/-90000\r\nb=AS:-5\r\n" + a
	case "huge-numbers":
		return head + "m=video 99999999999999999999 RTP/AVP 96\r\na=rtpmap:96 H264/99999999999999999999\r\nb=AS:99999999999999999999\r\n" + a
	case "audio-only":
		return head + a
	case "lf-only":
		return strings.ReplaceAll(head+v+a, "\r\n", "\n")
	}
	return head + v + a
}

func TestHostile(t *testing.T) {
	var cases []hcase
	vio.Lines(t, "VERIF_IN", func(raw json.RawMessage) {
		var c hcase
		if err := json.Unmarshal(raw, &c); err != nil {
			t.Fatal(err)
		}
		cases = append(cases, c)
	})
	out := vio.Create(t, os.Getenv("VERIF_OUT"))
	defer out.Close()
	progress := os.Getenv("VERIF_PROGRESS")
	srv, err := vsrv.Start(false, false)
	if err != nil {
		t.Fatal(err)
	}
	// a healthy publisher + player pair that must stay healthy throughout
	healthy := func(n int) bool {
		c, err := vclient.DialRTSP(srv.Addr)
		if err != nil {
			return false
		}
		defer c.Close()
		r, _, _ := c.Do("OPTIONS", "rtsp://"+srv.Addr+"/c07/ping", nil, "", 3*time.Second)
		return r.Kind == "response" && r.Status == 200
	}
	publish := func(path string) (*vclient.RTSP, bool) {
		c, err := vclient.DialRTSP(srv.Addr)
		if err != nil {
			return nil, false
		}
		url := "rtsp://" + srv.Addr + path
		ok := true
		step := func(m, u string, h map[string]string, body string) {
			r, _, _ := c.Do(m, u, h, body, 3*time.Second)
			if r.Kind != "response" || r.Status != 200 {
				ok = false
			}
		}
		step("ANNOUNCE", url, map[string]string{"Content-Type": "application/sdp"}, strings.ReplaceAll(sdp264, "\n", "\r\n"))
		step("SETUP", url+"/streamid=0", map[string]string{"Transport": "RTP/AVP/TCP;unicast;interleaved=0-1;mode=record"}, "")
		step("SETUP", url+"/streamid=1", map[string]string{"Transport": "RTP/AVP/TCP;unicast;interleaved=2-3;mode=record", "Session": c.Session}, "")
		step("RECORD", url, map[string]string{"Session": c.Session}, "")
		return c, ok
	}
	frame := func(ch byte, b []byte) []byte {
		return append([]byte{'$', ch, byte(len(b) >> 8), byte(len(b))}, b...)
	}
	for ci, c := range cases {
		tid := ci + 1
		if progress != "" {
			b, _ := json.Marshal(c)
			os.WriteFile(progress, b, 0o644)
		}
		if c.Kind == "sdp" {
			outcome, relays := "ok", false
			done := make(chan struct{})
			go func() {
				defer close(done)
				defer func() {
					if r := recover(); r != nil {
						outcome = "panic: " + fmt.Sprint(r)
					}
				}()
				st := media.NewStream(fmt.Sprintf("/c07/sdp%d", tid), hostileSDP(c.Class))
				if st == nil {
					outcome = "nil"
					return
				}
				defer st.Close()
				rr := &rtpRec{rec{ids: map[string]bool{}}}
				st.StartConsume(rr, media.RTPPacket, "c07")
				w := &world{codec: "h264", seq: map[byte]uint16{}, tag: "a"}
				var ids []string
				for k := 0; k < 3; k++ {
					p, id := w.video(k == 0, uint32(k)*3000)
					st.WriteRtpPacket(p)
					ids = append(ids, id)
				}
				p, id := w.audio(0)
				st.WriteRtpPacket(p)
				ids = append(ids, id)
				deadline := time.Now().Add(2 * time.Second)
				for time.Now().Before(deadline) {
					n := 0
					for _, x := range ids {
						if rr.has(x) {
							n++
						}
					}
					if n == len(ids) {
						relays = true
						break
					}
					time.Sleep(200 * time.Microsecond)
				}
			}()
			select {
			case <-done:
			case <-time.After(10 * time.Second):
				outcome = "stuck"
			}
			out.Put(map[string]interface{}{"t": tid, "e": "sdp", "class": c.Class, "outcome": outcome, "relays": relays})
			continue
		}
		// hostile bytes on an RTSP connection
		path := fmt.Sprintf("/c07/s%d", tid)
		answered := false
		continues, framed := true, false // framed: the hostile bytes were a well-framed interleaved frame
		var hc *vclient.RTSP
		switch c.Class {
		case "announce-garbage-sdp", "announce-empty-sdp", "announce-thousand-media":
			hc, _ = vclient.DialRTSP(srv.Addr)
			body := hostileSDP(map[string]string{"announce-garbage-sdp": "garbage", "announce-empty-sdp": "no-media", "announce-thousand-media": "thousand-media"}[c.Class])
			r, _, _ := hc.Do("ANNOUNCE", "rtsp://"+srv.Addr+path, map[string]string{"Content-Type": "application/sdp"}, body, 3*time.Second)
			answered = r.Kind == "response" || r.Kind == "eof"
		default:
			var ok bool
			hc, ok = publish(path)
			if !ok {
				out.Put(map[string]interface{}{"t": tid, "e": "session", "class": c.Class, "server_alive": healthy(tid), "other_session_ok": false, "closed_or_answered": false, "framed": false, "stream_continues": true, "note": "publisher handshake failed"})
				if hc != nil {
					hc.Close()
				}
				continue
			}
			w := &world{codec: "h264", seq: map[byte]uint16{}, tag: "a"}
			good, _ := w.video(true, 0)
			// a player inside the server: does the stream go on relaying after the hostile bytes?
			rec := &relayRec{}
			if st := media.Get(path); st != nil {
				st.StartConsume(rec, media.RTPPacket, "c07 relay observer")
			}
			hc.C.Write(frame(0, good.Data))
			var hostile []byte
			switch c.Class {
			case "frame-unknown-channel":
				hostile = frame(9, good.Data)
			case "frame-short-rtp":
				hostile = frame(0, []byte{0x80, 96, 0})
			case "frame-empty-video":
				hostile = frame(0, nil)
			case "frame-empty-rtcp":
				hostile = frame(1, nil)
			case "frame-rtcp-garbage":
				hostile = frame(1, []byte{0x80, 200, 0})
			case "frame-stapa-truncated":
				bad := w.pkt(rtp.ChannelVideo, 96, 3000, []byte{24, 0})
				hostile = frame(0, bad.Data)
			case "frame-aac-truncated":
				bad := w.pkt(rtp.ChannelAudio, 97, 1024, []byte{0xff})
				hostile = frame(2, bad.Data)
			case "garbage-bytes":
				hostile = []byte("\x00\x01\x02 garbage \xff\xfe\r\n\r\n")
			case "frame-length-beyond-then-silence":
				hostile = []byte{'$', 0, 0xff, 0xff, 1, 2, 3}
			}
			hc.C.Write(hostile)
			// then a well-formed packet and a keep-alive: either they are served, or the connection is closed
			good2, _ := w.video(false, 6000)
			hc.C.Write(frame(0, good2.Data))
			continues = false
			for k := 0; k < 400 && !continues; k++ { // up to 2 s
				continues = rec.has(good2.Data)
				if !continues {
					time.Sleep(5 * time.Millisecond)
				}
			}
			framed = c.Class != "garbage-bytes" && c.Class != "frame-length-beyond-then-silence"
			if c.Class == "frame-length-beyond-then-silence" {
				answered = true // the server is entitled to wait for the announced bytes until its read timeout
			} else {
				r, _, _ := hc.Do("GET_PARAMETER", "rtsp://"+srv.Addr+path, map[string]string{"Session": hc.Session}, "", 3*time.Second)
				answered = r.Kind == "response" || r.Kind == "eof"
			}
		}
		alive := healthy(tid)
		// another publisher can still publish and is relayed inside the server
		other, ok2 := publish(fmt.Sprintf("/c07/o%d", tid))
		if other != nil {
			other.Close()
		}
		if hc != nil {
			hc.Close()
		}
		out.Put(map[string]interface{}{"t": tid, "e": "session", "class": c.Class, "server_alive": alive, "other_session_ok": ok2, "closed_or_answered": answered,
			"framed": framed, "stream_continues": continues})
	}
	vio.WriteJSON(t, "VERIF_OUT2", map[string]interface{}{"cases": len(cases)})
}

// relayRec records what a consumer of the stream is handed
type relayRec struct {
	mu   sync.Mutex
	seen [][]byte
}

func (r *relayRec) Consume(p media.Pack) {
	if pk, ok := p.(*rtp.Packet); ok {
		r.mu.Lock()
		r.seen = append(r.seen, append([]byte(nil), pk.Data...))
		r.mu.Unlock()
	}
}
func (r *relayRec) Close() error { return nil }
func (r *relayRec) has(data []byte) bool {
	r.mu.Lock()
	defer r.mu.Unlock()
	for _, d := range r.seen {
		if bytes.Equal(d, data) {
			return true
		}
	}
	return false
}
