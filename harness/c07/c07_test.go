//go:build verif

// Package c07: injects the malformed inputs enumerated by TLC (spec/contain/FaultCases.tla) into an otherwise valid
// stream and observes, from the outside, whether the same stream keeps relaying RTP and producing FLV and HLS for the
// well-formed packets that follow, whether a second stream in the same process is undisturbed, and whether
// goroutines are left behind; hostile SDP bodies and hostile bytes on RTSP connections are a second and third leg.
// TLC validates the observations against ContainTrace.tla.
package c07

import (
	"bytes"
	"encoding/base64"
	"encoding/binary"
	"encoding/json"
	"fmt"
	"math/rand"
	"os"
	"regexp"
	"runtime"
	"strings"
	"sync"
	"testing"
	"time"

	"github.com/cnotch/ipchub/av/format/flv"
	"github.com/cnotch/ipchub/av/format/rtp"
	"github.com/cnotch/ipchub/config"
	"github.com/cnotch/ipchub/media"
	"verifharness/tsdemux"
	"verifharness/vio"
)

const sdp264 = `v=0
o=- 0 0 IN IP4 127.0.0.1
s=x
c=IN IP4 127.0.0.1
t=0 0
m=video 0 RTP/AVP 96
a=rtpmap:96 H264/90000
a=fmtp:96 packetization-mode=1; sprop-parameter-sets=Z2QAH6zZQFAFuhAAAAMAEAAAAwPI8YMZYA==,aO+8sA==; profile-level-id=64001F
a=control:streamid=0
m=audio 0 RTP/AVP 97
a=rtpmap:97 MPEG4-GENERIC/44100/2
a=fmtp:97 profile-level-id=1;mode=AAC-hbr;sizelength=13;indexlength=3;indexdeltalength=3; config=121056E500
a=control:streamid=1
`
const sdp265 = `v=0
o=- 0 0 IN IP4 127.0.0.1
s=x
c=IN IP4 127.0.0.1
t=0 0
m=video 0 RTP/AVP 96
a=rtpmap:96 H265/90000
a=fmtp:96 sprop-vps=QAEMAf//AWAAAAMAkAAAAwAAAwBdlZgJ; sprop-sps=QgEBAWAAAAMAkAAAAwAAAwBdoAKAgC0WWVmkkyuAQAAA+kAAF3AC; sprop-pps=RAHBcrRiQA==
a=control:streamid=0
m=audio 0 RTP/AVP 97
a=rtpmap:97 MPEG4-GENERIC/44100/2
a=fmtp:97 profile-level-id=1;mode=AAC-hbr;sizelength=13;indexlength=3;indexdeltalength=3; config=121056E500
a=control:streamid=1
`

type fcase struct {
	Codec  string `json:"codec"`
	Target string `json:"target"`
	Fault  string `json:"fault"`
	V      int    `json:"v"`
	Place  string `json:"place"`
}

var idRe = regexp.MustCompile(`#[VA][ab][0-9]{4}#`)

// recorders ------------------------------------------------------------------------------------------------
type rec struct {
	mu  sync.Mutex
	ids map[string]bool
}

func (r *rec) add(b []byte) {
	for _, m := range idRe.FindAll(b, -1) {
		r.mu.Lock()
		r.ids[string(m)] = true
		r.mu.Unlock()
	}
}
func (r *rec) has(id string) bool { r.mu.Lock(); defer r.mu.Unlock(); return r.ids[id] }

type rtpRec struct{ rec }

func (r *rtpRec) Consume(p media.Pack) {
	if pk, ok := p.(*rtp.Packet); ok {
		r.add(pk.Data)
	}
}
func (r *rtpRec) Close() error { return nil }

type flvRec struct{ rec }

func (r *flvRec) Consume(p media.Pack) {
	if t, ok := p.(*flv.Tag); ok {
		r.add(t.Data)
	}
}
func (r *flvRec) Close() error { return nil }

// packets ----------------------------------------------------------------------------------------------------
func baseCodec(c string) string { return strings.TrimSuffix(c, "n") }

var (
	sps264, _ = base64.StdEncoding.DecodeString("Z2QAH6zZQFAFuhAAAAMAEAAAAwPI8YMZYA==")
	pps264, _ = base64.StdEncoding.DecodeString("aO+8sA==")
	vps265, _ = base64.StdEncoding.DecodeString("QAEMAf//AWAAAAMAkAAAAwAAAwBdlZgJ")
	sps265, _ = base64.StdEncoding.DecodeString("QgEBAWAAAAMAkAAAAwAAAwBdoAKAgC0WWVmkkyuAQAAA+kAAF3AC")
	pps265, _ = base64.StdEncoding.DecodeString("RAHBcrRiQA==")
)

// without sprop-*: the parameter sets have to come in band
func noSprop(raw string) string {
	re := regexp.MustCompile(`(?m)^a=fmtp:96 .*$`)
	return re.ReplaceAllString(raw, "a=fmtp:96 packetization-mode=1")
}

type world struct {
	codec string
	seq   map[byte]uint16
	n     int
	tag   string
}

func (w *world) pkt(ch byte, pt byte, ts uint32, payload []byte) *rtp.Packet {
	w.seq[ch]++
	h := make([]byte, 12)
	h[0], h[1] = 0x80, 0x80|pt
	binary.BigEndian.PutUint16(h[2:], w.seq[ch])
	binary.BigEndian.PutUint32(h[4:], ts)
	binary.BigEndian.PutUint32(h[8:], 0x1234)
	p := &rtp.Packet{Channel: ch, Data: append(h, payload...)}
	if ch == rtp.ChannelVideo || ch == rtp.ChannelAudio {
		if err := p.Header.Unmarshal(p.Data); err != nil {
			return nil
		}
	}
	return p
}

func (w *world) id(kind byte) string {
	w.n++
	return fmt.Sprintf("#%c%s%04d#", kind, w.tag, w.n%10000)
}

func (w *world) nalHdr(key bool) []byte {
	if w.codec == "h265" {
		if key {
			return []byte{19 << 1, 1}
		}
		return []byte{1 << 1, 1}
	}
	if key {
		return []byte{0x65}
	}
	return []byte{0x41}
}

// good video packet (single NAL unit) and good audio packet (one AU); the id is inside the payload
func (w *world) video(key bool, ts uint32) (*rtp.Packet, string) {
	id := w.id('V')
	body := append(w.nalHdr(key), []byte(id+strings.Repeat("v", 40))...)
	return w.pkt(rtp.ChannelVideo, 96, ts, body), id
}
// videoFU: the same kind of frame as a fragmentation unit in two packets (FU-A / FU)
func (w *world) videoFU(key bool, ts uint32) ([]*rtp.Packet, string) {
	id := w.id('V')
	hdr := w.nalHdr(key)
	body := []byte(id + strings.Repeat("v", 40))
	a, b := body[:len(body)/2], body[len(body)/2:]
	var p1, p2 []byte
	if w.codec == "h265" {
		typ := hdr[0] >> 1
		p1 = append([]byte{49 << 1, 1, 0x80 | typ}, a...)
		p2 = append([]byte{49 << 1, 1, 0x40 | typ}, b...)
	} else {
		p1 = append([]byte{hdr[0]&0x60 | 28, 0x80 | hdr[0]&0x1f}, a...)
		p2 = append([]byte{hdr[0]&0x60 | 28, 0x40 | hdr[0]&0x1f}, b...)
	}
	return []*rtp.Packet{w.pkt(rtp.ChannelVideo, 96, ts, p1), w.pkt(rtp.ChannelVideo, 96, ts, p2)}, id
}
func (w *world) audio(ts uint32) (*rtp.Packet, string) {
	id := w.id('A')
	au := []byte(id + strings.Repeat("a", 30))
	body := append([]byte{0, 16, byte(len(au) >> 5), byte(len(au) << 3)}, au...)
	return w.pkt(rtp.ChannelAudio, 97, ts, body), id
}

// the malformed packets of a case
func (w *world) faults(c fcase, ts uint32, rng *rand.Rand) []*rtp.Packet {
	var out []*rtp.Packet
	vid := func(payload []byte) { out = append(out, w.pkt(rtp.ChannelVideo, 96, ts, payload)) }
	aud := func(payload []byte) { out = append(out, w.pkt(rtp.ChannelAudio, 97, ts, payload)) }
	h265 := w.codec == "h265"
	nal := bytes.Repeat([]byte{0x5a}, 20)
	switch c.Target {
	case "video":
		// valid aggregation / fragmentation packets to damage
		var agg, fuS, fuE, single []byte
		if h265 {
			agg = append([]byte{48 << 1, 1}, 0, 6, 2, 1, 9, 9, 9, 9, 0, 5, 2, 1, 8, 8, 8)
			fuS = append([]byte{49 << 1, 1, 0x80 | 19}, nal...)
			fuE = append([]byte{49 << 1, 1, 0x40 | 19}, nal...)
			single = append([]byte{2, 1}, nal...)
		} else {
			agg = append([]byte{24}, 0, 5, 0x41, 9, 9, 9, 9, 0, 4, 0x41, 8, 8, 8)
			fuS = append([]byte{0x7c, 0x85}, nal...)
			fuE = append([]byte{0x7c, 0x45}, nal...)
			single = append([]byte{0x41}, nal...)
		}
		every := func(b []byte) {
			for n := 0; n < len(b); n++ {
				vid(b[:n])
			}
		}
		switch c.Fault {
		case "empty":
			vid(nil)
		case "one-byte":
			vid([]byte{49 << 1})
		case "nalhdr-only":
			if h265 {
				vid([]byte{byte(c.V) << 1, 1})
			} else {
				vid([]byte{byte(c.V)})
			}
		case "stapa-size-beyond", "ap-size-beyond":
			b := append([]byte(nil), agg...)
			hl := len(agg) - 13 // header length: 1 (h264) or 2 (h265)
			b[hl], b[hl+1] = 0x7f, 0xff
			vid(b)
		case "stapa-size-zero", "ap-size-zero":
			b := append([]byte(nil), agg...)
			hl := len(agg) - 13
			b[hl], b[hl+1] = 0, 0
			vid(b)
		case "stapa-trailing-byte", "ap-trailing-byte":
			vid(append(append([]byte(nil), agg...), 0))
		case "stapa-truncate-every", "ap-truncate-every":
			every(agg)
		case "fua-header-only", "fu-header-only":
			vid(fuS[:len(fuS)-len(nal)])
			vid(fuE[:len(fuE)-len(nal)])
		case "fua-start-empty", "fu-start-empty":
			vid(fuS[:len(fuS)-len(nal)])
		case "fua-end-without-start", "fu-end-without-start":
			vid(fuE)
		case "fua-truncate-every", "fu-truncate-every":
			every(fuS)
			every(fuE)
		case "fua-unfinished", "fu-unfinished":
			// a unit that is begun and never finished: a good start fragment, then its end fragment cut down to
			// 0..2 bytes (or nothing at all); what follows is the next round's first frame - itself a fragmentation
			// unit in every second round
			vid(fuS)
			if n := rng.Intn(4); n < 3 { // 0..2 bytes of the end fragment; 3: it never arrives
				vid(fuE[:n])
			}
		case "single-truncate-every":
			every(single)
		case "flip-every":
			for _, base := range [][]byte{agg, fuS, single} {
				for i := 0; i < len(base) && i < 8; i++ {
					for _, v := range []byte{0, 0xff, 0x80, 0x1f} {
						b := append([]byte(nil), base...)
						b[i] = v
						vid(b)
					}
				}
			}
		case "huge":
			b := make([]byte, 65000)
			rng.Read(b)
			copy(b, agg[:len(agg)-13])
			vid(b)
		case "paramset-truncate-every":
			sets := [][]byte{sps264, pps264}
			if h265 {
				sets = [][]byte{vps265, sps265, pps265}
			}
			for _, ps := range sets {
				for n := 1; n < len(ps); n++ {
					vid(ps[:n])
				}
			}
		case "paramset-short": // a sequence parameter set cut after three bytes, nothing else
			if h265 {
				vid(sps265[:4])
			} else {
				vid(sps264[:3])
			}
		case "paramset-garbage":
			hdrs := [][]byte{{0x67}, {0x68}}
			if h265 {
				hdrs = [][]byte{{32 << 1, 1}, {33 << 1, 1}, {34 << 1, 1}}
			}
			for _, h := range hdrs {
				for k := 0; k < 4; k++ {
					b := make([]byte, 3+rng.Intn(40))
					rng.Read(b)
					if k == 0 {
						for i := range b {
							b[i] = 0xff
						}
					}
					vid(append(append([]byte(nil), h...), b...))
				}
			}
		case "padding-beyond", "extension-beyond", "csrc-beyond":
			out = append(out, w.hdrFault(rtp.ChannelVideo, 96, ts, c.Fault)...)
		}
	case "audio":
		good := append([]byte{0, 32, 0, 40, 0, 40}, bytes.Repeat([]byte{7}, 10)...)
		switch c.Fault {
		case "empty":
			aud(nil)
		case "one-byte":
			aud([]byte{0})
		case "auhdr-len-zero":
			aud([]byte{0, 0, 1, 2, 3})
		case "auhdr-len-odd":
			aud([]byte{0, 13, 0, 40, 1, 2, 3, 4, 5})
		case "auhdr-len-beyond":
			aud([]byte{0xff, 0xf0, 0, 40, 1, 2, 3})
		case "au-size-beyond":
			aud([]byte{0, 16, 0xff, 0xf8, 1, 2, 3})
		case "au-size-zero":
			aud([]byte{0, 16, 0, 0, 1, 2, 3})
		case "au-many":
			b := []byte{0x0f, 0xf0}
			for i := 0; i < 255; i++ {
				b = append(b, 0, 8)
			}
			aud(append(b, bytes.Repeat([]byte{1}, 100)...))
		case "truncate-every":
			for n := 0; n < len(good); n++ {
				aud(good[:n])
			}
		case "flip-every":
			for i := 0; i < 6; i++ {
				for _, v := range []byte{0, 0xff, 0x80} {
					b := append([]byte(nil), good...)
					b[i] = v
					aud(b)
				}
			}
		case "padding-beyond", "extension-beyond", "csrc-beyond":
			out = append(out, w.hdrFault(rtp.ChannelAudio, 97, ts, c.Fault)...)
		}
	default: // RTCP on a control channel
		ch := byte(rtp.ChannelVideoControl)
		if c.Target == "artcp" {
			ch = rtp.ChannelAudioControl
		}
		put := func(b []byte) { out = append(out, &rtp.Packet{Channel: ch, Data: b}) }
		sr := make([]byte, 28)
		sr[0], sr[1] = 0x80, 200
		binary.BigEndian.PutUint16(sr[2:], 6)
		binary.BigEndian.PutUint32(sr[8:], 0xe0000000)
		binary.BigEndian.PutUint32(sr[16:], ts)
		switch c.Fault {
		case "empty":
			put([]byte{})
		case "one-byte":
			put([]byte{0x80})
		case "sr-truncate-every":
			for n := 2; n < len(sr); n++ {
				put(append([]byte(nil), sr[:n]...))
			}
		case "rr":
			put([]byte{0x81, 201, 0, 7, 0, 0, 0, 1})
		case "bye":
			put([]byte{0x81, 203, 0, 1, 0, 0, 0, 1})
		case "random":
			for i := 0; i < 20; i++ {
				b := make([]byte, rng.Intn(60))
				rng.Read(b)
				if len(b) >= 20 && b[1] == 200 { // that would be a well-formed sender report with an arbitrary clock, not garbage
					b[1] = 199
				}
				put(b)
			}
		case "sr-zero-rtptime":
			b := append([]byte(nil), sr...)
			binary.BigEndian.PutUint32(b[16:], 0)
			put(b)
		}
	}
	var ok []*rtp.Packet
	for _, p := range out {
		if p != nil {
			ok = append(ok, p)
		}
	}
	return ok
}

// hdrFault: RTP header fields that point beyond the packet; only what rtp.ReadPacket (the session's entry) lets through
func (w *world) hdrFault(ch byte, pt byte, ts uint32, kind string) []*rtp.Packet {
	h := make([]byte, 12)
	h[0], h[1] = 0x80, pt
	binary.BigEndian.PutUint32(h[4:], ts)
	body := []byte{0x41, 1, 2, 3}
	switch kind {
	case "padding-beyond":
		h[0] |= 0x20
		body = []byte{0x41, 1, 2, 200}
	case "extension-beyond":
		h[0] |= 0x10
		body = []byte{0xbe, 0xde, 0xff, 0xff, 1, 2}
	case "csrc-beyond":
		h[0] |= 0x0f
	}
	bodies := [][]byte{body}
	if kind == "padding-beyond" { // every pad count from "one more than the payload" to "more than the whole packet"
		bodies = nil
		for _, pad := range []byte{5, 8, 15, 16, 17, 200, 255} {
			bodies = append(bodies, []byte{0x41, 1, 2, pad})
		}
	}
	var out []*rtp.Packet
	for _, b := range bodies {
		p := &rtp.Packet{Channel: ch, Data: append(append([]byte(nil), h...), b...)}
		if err := p.Header.Unmarshal(p.Data); err != nil {
			continue // the session refuses it before the stream sees it
		}
		out = append(out, p)
	}
	return out
}

type strm struct {
	inband bool // the SDP carries no parameter sets: the good stream repeats them in band before every key frame
	s      *media.Stream
	rtp    *rtpRec
	flv    *flvRec
	w      *world
	good   struct{ rtpIDs, frameIDs, hlsIDs []string }
}

func newStrm(path, codec, tag string) *strm {
	raw := sdp264
	if baseCodec(codec) == "h265" {
		raw = sdp265
	}
	if codec != baseCodec(codec) {
		raw = noSprop(raw)
	}
	st := &strm{inband: codec != baseCodec(codec), s: media.NewStream(path, raw), rtp: &rtpRec{rec{ids: map[string]bool{}}}, flv: &flvRec{rec{ids: map[string]bool{}}},
		w: &world{codec: baseCodec(codec), seq: map[byte]uint16{}, tag: tag}}
	st.s.StartConsume(st.rtp, media.RTPPacket, "c07")
	st.s.StartConsume(st.flv, media.FLVPacket, "c07")
	return st
}

func (st *strm) write(p *rtp.Packet) (panicked bool) {
	defer func() {
		if r := recover(); r != nil {
			panicked = true
		}
	}()
	st.s.WriteRtpPacket(p)
	return
}

// round writes one group of pictures at second 6*r: key frame, two other frames, one AAC frame
func (st *strm) round(r int, count bool, hls bool) {
	ts := uint32(r) * 6 * 90000
	// the parameter sets in band, as cameras send them in front of every key frame
	sets := [][]byte{sps264, pps264}
	if st.w.codec == "h265" {
		sets = [][]byte{vps265, sps265, pps265}
	}
	if st.inband {
		for _, ps := range sets {
			st.write(st.w.pkt(rtp.ChannelVideo, 96, ts, ps))
		}
	}
	for k := 0; k < 3; k++ {
		var id string
		if (r+k)%2 == 0 { // every second frame travels as a fragmentation unit: in even rounds the key frame does
			var ps []*rtp.Packet
			ps, id = st.w.videoFU(k == 0, ts+uint32(k)*3000)
			for _, p := range ps {
				st.write(p)
			}
		} else {
			var p *rtp.Packet
			p, id = st.w.video(k == 0, ts+uint32(k)*3000)
			st.write(p)
		}
		if count {
			st.good.rtpIDs = append(st.good.rtpIDs, id)
			st.good.frameIDs = append(st.good.frameIDs, id)
			if hls {
				st.good.hlsIDs = append(st.good.hlsIDs, id)
			}
		}
	}
	p, id := st.w.audio(uint32(r) * 6 * 44100)
	st.write(p)
	if count {
		st.good.rtpIDs = append(st.good.rtpIDs, id)
		st.good.frameIDs = append(st.good.frameIDs, id)
	}
}

func (st *strm) hlsHas(ids []string) int {
	h := st.s.Hlsable()
	if h == nil {
		return 0
	}
	found := map[string]bool{}
	for seq := 1; seq <= 4; seq++ {
		rd, _, err := h.Segment(seq)
		if err != nil {
			continue
		}
		var buf bytes.Buffer
		buf.ReadFrom(rd)
		r := tsdemux.Parse(buf.Bytes(), sps264, pps264)
		for _, u := range r.Video {
			for _, m := range idRe.FindAll(u.Body, -1) {
				found[string(m)] = true
			}
		}
	}
	n := 0
	for _, id := range ids {
		if found[id] {
			n++
		}
	}
	return n
}

func (st *strm) tally() (relay, flvn, hls int) {
	for _, id := range st.good.rtpIDs {
		if st.rtp.has(id) {
			relay++
		}
	}
	for _, id := range st.good.frameIDs {
		if st.flv.has(id) {
			flvn++
		}
	}
	return relay, flvn, st.hlsHas(st.good.hlsIDs)
}

func ipchubGoroutines() int {
	buf := make([]byte, 4<<20)
	buf = buf[:runtime.Stack(buf, true)]
	n := 0
	for _, g := range strings.Split(string(buf), "\n\n") {
		if strings.Contains(g, "cnotch/ipchub/av/format") || strings.Contains(g, "cnotch/ipchub/media.") {
			if !strings.Contains(g, "c07_test.go") || strings.Contains(g, ".process(") {
				n++
			}
		}
	}
	return n
}

func TestContain(t *testing.T) {
	var cases []fcase
	vio.Lines(t, "VERIF_IN", func(raw json.RawMessage) {
		var c fcase
		if err := json.Unmarshal(raw, &c); err != nil {
			t.Fatal(err)
		}
		cases = append(cases, c)
	})
	out := vio.Create(t, os.Getenv("VERIF_OUT"))
	defer out.Close()
	progress := os.Getenv("VERIF_PROGRESS")
	config.VerifSet(false, false, 5, "")
	rng := rand.New(rand.NewSource(vio.Seed()))
	before := ipchubGoroutines()
	injectedTotal := 0
	for ci, c := range cases {
		tid := ci + 1
		if progress != "" {
			b, _ := json.Marshal(c)
			os.WriteFile(progress, b, 0o644)
		}
		a := newStrm(fmt.Sprintf("/c07/a%d", tid), c.Codec, "a")
		b := newStrm(fmt.Sprintf("/c07/b%d", tid), c.Codec, "b")
		hlsA := baseCodec(c.Codec) == "h264"
		writePanic := false
		inject := func(r int) int {
			ps := a.w.faults(c, uint32(r)*6*90000+9000, rng)
			reps := 1
			if c.Place == "burst" {
				reps = 3
			}
			for k := 0; k < reps; k++ {
				for _, p := range ps {
					if a.write(p) {
						writePanic = true
					}
				}
			}
			return len(ps) * reps
		}
		injected := 0
		if c.Place == "first" {
			injected = inject(0)
			a.round(0, true, hlsA)
		} else {
			a.round(0, false, false)
			injected = inject(0)
		}
		b.round(0, true, hlsA)
		for r := 1; r <= 3; r++ {
			a.round(r, true, hlsA && r < 3) // round 3 only opens the fourth segment
			b.round(r, true, hlsA && r < 3)
		}
		if c.Place == "first" && hlsA {
			// round 0 of stream a was counted for HLS: it lies in the first segment
		}
		injectedTotal += injected
		var ar, af, ah, br, bf, bh int
		deadline := time.Now().Add(1500 * time.Millisecond)
		for {
			ar, af, ah = a.tally()
			br, bf, bh = b.tally()
			if ar == len(a.good.rtpIDs) && af == len(a.good.frameIDs) && ah == len(a.good.hlsIDs) &&
				br == len(b.good.rtpIDs) && bf == len(b.good.frameIDs) && bh == len(b.good.hlsIDs) {
				break
			}
			if time.Now().After(deadline) {
				break
			}
			time.Sleep(300 * time.Microsecond)
		}
		a.s.Close()
		b.s.Close()
		out.Put(map[string]interface{}{"t": tid, "e": "case", "case": c, "injected": injected, "write_panic": writePanic,
			"relay_want": len(a.good.rtpIDs), "relay_got": ar, "flv_want": len(a.good.frameIDs), "flv_got": af, "hls_want": len(a.good.hlsIDs), "hls_got": ah,
			"other_want": len(b.good.rtpIDs) + len(b.good.frameIDs) + len(b.good.hlsIDs), "other_got": br + bf + bh})
	}
	// every stream is closed: nothing of ipchub may be left running or blocked
	after := ipchubGoroutines()
	deadline := time.Now().Add(3 * time.Second)
	for after > before && time.Now().Before(deadline) {
		time.Sleep(20 * time.Millisecond)
		after = ipchubGoroutines()
	}
	blocked := after - before
	if blocked < 0 {
		blocked = 0
	}
	out.Put(map[string]interface{}{"t": len(cases) + 1, "e": "leak", "goroutines_before": before, "goroutines_after": after, "blocked": blocked})
	vio.WriteJSON(t, "VERIF_OUT2", map[string]interface{}{"cases": len(cases), "injected": injectedTotal})
}
