//go:build verif

// Package vsched is the gate scheduler of the conformance harness.
//
// Every vhook point in /repo calls the installed handler.  In gated mode the calling
// goroutine is parked at the point until the scheduler releases it, so a schedule (a list of
// process names produced by TLC from the implementation-level specification) can be replayed
// step by step on the real code.  Every hook arrival is also recorded, under one mutex and with
// one sequence counter, as an event of the execution trace that TLC later validates against the
// specification.  No wall clock is used to order anything.
package vsched

import (
	"bytes"
	"fmt"
	"runtime"
	"strconv"
	"strings"
	"sync"
	"time"

	"github.com/cnotch/ipchub/utils/vhook"
)

// Event is one trace record.
type Event struct {
	N     int                    `json:"n"`
	Proc  string                 `json:"g"`
	Ev    string                 `json:"e"`
	Attrs map[string]interface{} `json:"a,omitempty"`
}

type state int

const (
	running state = iota
	atHook
	done
)

type proc struct {
	seen    map[string]int
	name    string
	gid     int64
	st      state
	at      string
	release chan struct{}
}

// Sched is one scheduler instance; install with Install().
type Sched struct {
	mu        sync.Mutex
	procs     map[int64]*proc
	byName    map[string]*proc
	wake      chan struct{}
	trace     []Event
	free      bool
	expectNew int
	expected  map[string]bool
	// Name derives the process name of a goroutine first seen at a hook (code-spawned goroutines).
	Name func(point string, obj interface{}) string
	// Attrs derives the attributes logged with a hook event.
	Attrs func(point string, obj interface{}) map[string]interface{}
	// Spawns reports how many new goroutines the code starts right after this point is passed.
	Spawns func(point string) int
	// Rename maps a point name to the name used by the specification (e.g. to tell two
	// occurrences of the same hook apart); nth is how often this process has passed the point before.
	Rename func(point string, nth int) string
	// Ignore makes the handler return at once for a point (not gated, not logged).
	Ignore  func(point string) bool
	Skipped int // schedule entries that could not be taken (drift)
	Taken   int
}

// New creates a scheduler in gated mode.
func New() *Sched {
	return &Sched{procs: map[int64]*proc{}, byName: map[string]*proc{}, wake: make(chan struct{}, 1024)}
}

// Install makes s the vhook handler.
func (s *Sched) Install() { vhook.SetHandler(s.handle) }

// Uninstall removes the handler and opens all gates.
func (s *Sched) Uninstall() {
	s.Free()
	vhook.SetHandler(nil)
}

func gid() int64 {
	var buf [64]byte
	n := runtime.Stack(buf[:], false)
	f := bytes.Fields(buf[:n])
	id, _ := strconv.ParseInt(string(f[1]), 10, 64)
	return id
}

func (s *Sched) notify() {
	select {
	case s.wake <- struct{}{}:
	default:
	}
}

// Log appends a harness-level event (call / return / observation) to the trace.
func (s *Sched) Log(procName, ev string, attrs map[string]interface{}) {
	s.mu.Lock()
	s.trace = append(s.trace, Event{N: len(s.trace) + 1, Proc: procName, Ev: ev, Attrs: attrs})
	s.mu.Unlock()
}

// LogHere logs with the calling goroutine's process name.
func (s *Sched) LogHere(ev string, attrs map[string]interface{}) {
	g := gid()
	s.mu.Lock()
	name := "?"
	if p := s.procs[g]; p != nil {
		name = p.name
	}
	s.trace = append(s.trace, Event{N: len(s.trace) + 1, Proc: name, Ev: ev, Attrs: attrs})
	s.mu.Unlock()
}

func (s *Sched) handle(point string, obj interface{}) {
	if s.Ignore != nil && s.Ignore(point) {
		return
	}
	g := gid()
	s.mu.Lock()
	p := s.procs[g]
	if p == nil {
		// a goroutine the harness did not start: it takes part only if Name recognises it as a
		// goroutine spawned by the code under test for THIS run (leftovers of earlier runs and
		// unrelated background goroutines pass through untouched and unlogged)
		name := ""
		if s.Name != nil {
			name = s.Name(point, obj)
		}
		if name == "" {
			s.mu.Unlock()
			return
		}
		p = &proc{name: name, gid: g, release: make(chan struct{}, 1)}
		s.procs[g] = p
		if _, dup := s.byName[name]; !dup {
			s.byName[name] = p
		}
		if s.expectNew > 0 {
			s.expectNew--
		}
		delete(s.expected, name)
	}
	if s.Rename != nil {
		if p.seen == nil {
			p.seen = map[string]int{}
		}
		nth := p.seen[point]
		p.seen[point] = nth + 1
		point = s.Rename(point, nth)
	}
	var attrs map[string]interface{}
	if s.Attrs != nil {
		attrs = s.Attrs(point, obj)
	}
	s.trace = append(s.trace, Event{N: len(s.trace) + 1, Proc: p.name, Ev: point, Attrs: attrs})
	if s.free {
		if s.Spawns != nil {
			s.expectNew += s.Spawns(point)
		}
		s.mu.Unlock()
		return
	}
	p.st, p.at = atHook, point
	s.mu.Unlock()
	s.notify()
	<-p.release
}

// Expect announces that the code has just started a goroutine that will show up as process `name`
// at its first hook; Settle waits for it.
func (s *Sched) Expect(name string) {
	s.mu.Lock()
	if s.byName[name] == nil {
		if s.expected == nil {
			s.expected = map[string]bool{}
		}
		s.expected[name] = true
	}
	s.mu.Unlock()
}

// Go starts fn as a named harness process, parked at the virtual point "start".
func (s *Sched) Go(name string, fn func()) {
	p := &proc{name: name, release: make(chan struct{}, 1), st: atHook, at: "start"}
	ready := make(chan struct{})
	go func() {
		p.gid = gid()
		s.mu.Lock()
		s.procs[p.gid] = p
		s.byName[name] = p
		free := s.free
		s.mu.Unlock()
		close(ready)
		if !free {
			<-p.release
		}
		defer func() {
			s.mu.Lock()
			p.st = done
			s.mu.Unlock()
			s.notify()
		}()
		fn()
	}()
	<-ready
}

// goroutine states from a full stack dump: gid -> status string
var dbg func(string)

// SetDebug installs a debug sink.
func SetDebug(f func(string)) { dbg = f }

var (
	dumpMu  sync.Mutex
	dumpBuf = make([]byte, 64<<10)
)

func statuses() map[int64]string {
	dumpMu.Lock()
	defer dumpMu.Unlock()
	buf := dumpBuf
	n := runtime.Stack(buf, true)
	for n == len(buf) { // truncated: every goroutine must be in the dump
		buf = make([]byte, 2*len(buf))
		dumpBuf = buf
		n = runtime.Stack(buf, true)
	}
	res := map[int64]string{}
	for _, block := range strings.Split(string(buf[:n]), "\n\n") {
		lines := strings.Split(block, "\n")
		line := lines[0]
		if !strings.HasPrefix(line, "goroutine ") {
			continue
		}
		// goroutine 12 [sync.Cond.Wait, 2 minutes]:
		rest := line[len("goroutine "):]
		sp := strings.IndexByte(rest, ' ')
		if sp < 0 {
			continue
		}
		id, err := strconv.ParseInt(rest[:sp], 10, 64)
		if err != nil {
			continue
		}
		lb, rb := strings.IndexByte(rest, '['), strings.IndexByte(rest, ']')
		if lb < 0 || rb < lb {
			continue
		}
		st := rest[lb+1 : rb]
		if c := strings.IndexByte(st, ','); c >= 0 {
			st = st[:c]
		}
		// A goroutine waiting for one of the HARNESS's own mutexes (the scheduler's, the runner's: held for a few
		// instructions while an event is logged) is not blocked inside the code under test - it is on its way.
		// Under load several goroutines can be seen there at the same moment; taking that for quiescence would end
		// a run early.  The innermost frame that is not runtime / sync tells whose lock it is.
		if strings.Contains(st, "Mutex") {
			for _, fr := range lines[1:] {
				if fr == "" || fr[0] == '\t' {
					continue
				}
				if strings.HasPrefix(fr, "sync.") || strings.HasPrefix(fr, "runtime.") || strings.HasPrefix(fr, "internal/") {
					continue
				}
				if strings.HasPrefix(fr, "verifharness/") {
					st = "busy: harness mutex"
				}
				break
			}
		}
		res[id] = st
	}
	return res
}

// blockedStatus: only states in which a goroutine waits for ANOTHER goroutine count as blocked.
// Transient runtime states (GC assist wait, preempted, sleep, IO wait, syscall ...) end by themselves,
// so a goroutine in one of them is still busy.
func blockedStatus(st string) bool {
	switch st {
	case "sync.Cond.Wait", "sync.Mutex.Lock", "sync.RWMutex.Lock", "sync.RWMutex.RLock", "semacquire",
		"chan receive", "chan send", "select", "sync.WaitGroup.Wait", "chan receive (nil chan)",
		"chan send (nil chan)", "select (no cases)":
		return true
	}
	return false
}

// Settle waits until every known process is at a hook, finished, or blocked inside the code
// (mutex, condition variable, channel), and no announced goroutine is still missing.
// It returns the names of the processes that are blocked inside the code.
func (s *Sched) Settle() []string {
	deadline := time.Now().Add(20 * time.Second)
	stable := 0
	spins := 0
	last := "\x00none"
	for {
		s.mu.Lock()
		var busy []*proc
		for _, p := range s.procs {
			if p.st == running {
				busy = append(busy, p)
			}
		}
		exp := s.expectNew + len(s.expected)
		s.mu.Unlock()
		if len(busy) == 0 && exp == 0 {
			if dbg != nil {
				dbg(fmt.Sprintf("settle: idle spins=%d", spins))
			}
			return nil
		}
		var blocked []string
		allBlocked := exp == 0 && spins >= 50
		if allBlocked {
			sts := statuses()
			for _, p := range busy {
				st, ok := sts[p.gid]
				if !ok { // goroutine ended without passing a hook: the snapshot above is stale, start over
					s.mu.Lock()
					p.st = done
					s.mu.Unlock()
					allBlocked = false
					break
				}
				if !blockedStatus(st) {
					allBlocked = false
					break
				}
				blocked = append(blocked, p.name)
			}
		}
		if allBlocked {
			sig := strings.Join(blocked, ",")
			if sig == last {
				stable++
			} else {
				stable, last = 0, sig
			}
			if stable >= 1 {
				if dbg != nil {
					dbg(fmt.Sprintf("settle: blocked=%v exp=%d spins=%d sts=%v", blocked, exp, spins, statuses()))
				}
				return blocked
			}
		} else {
			stable, last = 0, "\x00none"
		}
		if time.Now().After(deadline) {
			panic("vsched: Settle timeout; running procs never reached a hook or a blocked state")
		}
		spins++
		if spins < 200 {
			runtime.Gosched() // the released goroutine usually reaches its next hook within microseconds
			continue
		}
		select {
		case <-s.wake:
		case <-time.After(100 * time.Microsecond):
		}
	}
}

// At returns the point a process is parked at ("" if not at a hook / unknown / done).
func (s *Sched) At(name string) string {
	s.mu.Lock()
	defer s.mu.Unlock()
	if p := s.byName[name]; p != nil && p.st == atHook {
		return p.at
	}
	return ""
}

// Done reports whether a process has finished (or was never created).
func (s *Sched) Done(name string) bool {
	s.mu.Lock()
	defer s.mu.Unlock()
	p := s.byName[name]
	return p != nil && p.st == done
}

// Step releases the named process from its gate and waits for the system to settle.
// It returns false (and does nothing) when the process is not parked at a hook.
func (s *Sched) Step(name string) bool {
	s.mu.Lock()
	p := s.byName[name]
	if p == nil || p.st != atHook {
		s.Skipped++
		s.mu.Unlock()
		return false
	}
	p.st = running
	if s.Spawns != nil {
		s.expectNew += s.Spawns(p.at)
	}
	p.at = ""
	s.Taken++
	s.mu.Unlock()
	p.release <- struct{}{}
	s.Settle()
	return true
}

// Parked lists the processes currently at a hook, sorted by name.
func (s *Sched) Parked() []string {
	s.mu.Lock()
	defer s.mu.Unlock()
	var r []string
	for _, p := range s.procs {
		if p.st == atHook {
			r = append(r, p.name)
		}
	}
	sortStrings(r)
	return r
}

func sortStrings(a []string) {
	for i := 1; i < len(a); i++ {
		for j := i; j > 0 && a[j] < a[j-1]; j-- {
			a[j], a[j-1] = a[j-1], a[j]
		}
	}
}

// Free opens every gate for good: from now on hooks only log.
func (s *Sched) Free() {
	s.mu.Lock()
	s.free = true
	var rel []*proc
	for _, p := range s.procs {
		if p.st == atHook {
			p.st = running
			if s.Spawns != nil {
				s.expectNew += s.Spawns(p.at)
			}
			rel = append(rel, p)
		}
	}
	s.mu.Unlock()
	for _, p := range rel {
		p.release <- struct{}{}
	}
}

// Quiesce opens the gates and waits until every process is finished or blocked inside the code.
// It returns the names of those that are blocked (e.g. parked in sync.Cond.Wait).
func (s *Sched) Quiesce() []string {
	s.Free()
	return s.Settle()
}

// Trace returns a copy of the recorded events.
func (s *Sched) Trace() []Event {
	s.mu.Lock()
	defer s.mu.Unlock()
	return append([]Event(nil), s.trace...)
}

// Status returns the runtime status string of a named process's goroutine ("" if gone).
func (s *Sched) Status(name string) string {
	s.mu.Lock()
	p := s.byName[name]
	s.mu.Unlock()
	if p == nil {
		return ""
	}
	return statuses()[p.gid]
}

// StatusAll returns the runtime status string of every named process's goroutine (one dump).
func (s *Sched) StatusAll() map[string]string {
	sts := statuses()
	s.mu.Lock()
	defer s.mu.Unlock()
	res := map[string]string{}
	for n, p := range s.byName {
		res[n] = sts[p.gid]
	}
	return res
}

// Debug returns a description of the scheduler's internal state.
func (s *Sched) Debug() string {
	s.mu.Lock()
	defer s.mu.Unlock()
	var b strings.Builder
	for _, p := range s.procs {
		b.WriteString(p.name + ":" + strconv.Itoa(int(p.st)) + "@" + p.at + " ")
	}
	b.WriteString("| expected=")
	for n := range s.expected {
		b.WriteString(n + " ")
	}
	b.WriteString("| expectNew=" + strconv.Itoa(s.expectNew))
	return b.String()
}

// Names returns all process names seen.
func (s *Sched) Names() []string {
	s.mu.Lock()
	defer s.mu.Unlock()
	var r []string
	for n := range s.byName {
		r = append(r, n)
	}
	sortStrings(r)
	return r
}
