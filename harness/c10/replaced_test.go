//go:build verif

package c10

import (
	"fmt"
	"io"
	"net/http"
	"os"
	"path/filepath"
	"testing"
	"time"

	"github.com/cnotch/ipchub/av/codec"
	"github.com/cnotch/ipchub/config"
	"github.com/cnotch/ipchub/media"
	"verifharness/vio"
	"verifharness/vsrv"
)

type nopConsumer struct{}

func (nopConsumer) Consume(p media.Pack) {}
func (nopConsumer) Close() error          { return nil }

// TestHlsReplaced: a new publisher takes a path over while the stream it replaces still has a player (so it stays open,
// C05) and its publisher keeps sending.  Both streams produce HLS in the server's one segment directory.  What an HLS
// client of the path gets must be the new stream's transport stream: every listed URI resolves and every segment holds
// exactly frames of the new stream.
func TestHlsReplaced(t *testing.T) {
	srv, err := vsrv.Start(false, false)
	if err != nil {
		t.Fatal(err)
	}
	hc := &http.Client{Timeout: 5 * time.Second}
	dir := t.TempDir()
	type finding struct {
		Mode string `json:"mode"`
		Seq  int    `json:"seq"`
		What string `json:"what"`
	}
	finds := []finding{}
	segs := 0
	for _, mode := range []string{"disk", "memory"} {
		segPath := ""
		if mode == "disk" {
			segPath = filepath.Join(dir, "segments")
			os.MkdirAll(segPath, 0o755)
		}
		config.VerifSet(false, false, 1, segPath)
		path := "/replaced/" + mode
		old := media.NewStream(path, sdpAV)
		media.Regist(old)
		old.StartConsume(nopConsumer{}, media.RTPPacket, "player of the old stream")
		neu := media.NewStream(path, sdpAV)
		media.Regist(neu) // the old stream is retired but stays open: it has a consumer
		vsrc := map[int]source{}
		for i := 0; i < 14; i++ {
			ns := int64(i) * 6e9 // the server cuts at the configured fragment length, never below 5 s
			po := append([]byte{0x65}, []byte(fmt.Sprintf("V%05d-frame-of-the-OLD-stream", i))...)
			pn := payload(900, "key", i)
			vsrc[i] = source{payload: pn, pts: int64(i) * 6 * tick, key: true}
			old.WriteFrame(&codec.Frame{MediaType: codec.MediaTypeVideo, Dts: ns, Pts: ns, Payload: po})
			neu.WriteFrame(&codec.Frame{MediaType: codec.MediaTypeVideo, Dts: ns, Pts: ns, Payload: pn})
			time.Sleep(3 * time.Millisecond) // the converters run in their own goroutines
		}
		time.Sleep(50 * time.Millisecond)
		get := func(u string) (int, []byte) {
			resp, err := hc.Get("http://" + srv.Addr + u)
			if err != nil {
				return -1, nil
			}
			defer resp.Body.Close()
			b, _ := io.ReadAll(resp.Body)
			return resp.StatusCode, b
		}
		code, body := get("/streams" + path + ".m3u8")
		if code != 200 {
			finds = append(finds, finding{mode, 0, fmt.Sprintf("no playlist: HTTP %d", code)})
		} else {
			l := parseM3u8(body)
			if len(l.Ents) != 3 {
				finds = append(finds, finding{mode, 0, fmt.Sprintf("playlist lists %d segments", len(l.Ents))})
			}
			for _, e := range l.Ents {
				c2, data := get(fmt.Sprintf("/streams%s/%d.ts", e.Path, e.Seq))
				if c2 != 200 {
					finds = append(finds, finding{mode, e.Seq, fmt.Sprintf("listed URI does not resolve: HTTP %d", c2)})
					continue
				}
				segs++
				si := analyse(data, vsrc, map[int]source{})
				if len(si.Bad) > 0 || !si.Intact || len(si.V) == 0 {
					finds = append(finds, finding{mode, e.Seq, fmt.Sprintf("segment is not the new stream's transport stream: structural %v, frames %v, equal to the new stream's frames: %v", si.Bad, si.V, si.Intact)})
				}
			}
		}
		media.Unregist(neu)
		neu.Close()
		old.Close()
	}
	config.VerifSet(false, false, 5, "")
	vio.WriteJSON(t, "VERIF_OUT", map[string]interface{}{"segments_fetched": segs, "findings": finds})
}
