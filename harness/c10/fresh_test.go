//go:build verif

package c10

import (
	"fmt"
	"os"
	"path/filepath"
	"sync"
	"sync/atomic"
	"testing"

	"github.com/cnotch/ipchub/av/codec"
	"github.com/cnotch/ipchub/av/format/hls"
	"github.com/cnotch/ipchub/av/format/mpegts"
	"github.com/cnotch/ipchub/av/format/sdp"
	"github.com/cnotch/xlog"
	"verifharness/vio"
)

// TestHlsFresh: "whenever a playlist is served it lists the most recent complete segments" - also when other requests
// for the playlist were in flight while the segment was completed.  A publisher completes one segment per key frame;
// eight pollers (anonymous and with tokens) request the playlist all the time.  After every completed segment the
// publisher itself asks for the playlist (with every token): it must list that segment as the newest one, and every
// URI of it must resolve.
func TestHlsFresh(t *testing.T) {
	var video codec.VideoMeta
	var audio codec.AudioMeta
	if err := sdp.ParseMetadata(sdpAV, &video, &audio); err != nil {
		t.Fatal(err)
	}
	rollovers := 1500
	if vio.Thorough() {
		rollovers = 12000
	}
	type finding struct {
		Mode   string `json:"mode"`
		After  int    `json:"after_frame"`
		Token  string `json:"token"`
		Listed []int  `json:"listed"`
		What   string `json:"what"`
	}
	var finds []finding
	checked := 0
	var polled int64
	dir := t.TempDir()
	tokens := []string{"", "tokA", "tokB"}
	// one run: what the publisher's own playlist requests list after every frame (nil: no playlist yet)
	run := func(mode string, n int, pollers int) map[string][]int {
		segPath := ""
		if mode == "disk" {
			segPath = filepath.Join(dir, fmt.Sprintf("fresh%d", pollers))
			os.MkdirAll(segPath, 0o755)
		}
		pl := hls.NewPlaylist()
		sg, err := hls.NewSegmentGenerator(pl, "/fresh/"+mode, 1, segPath, 44100, xlog.L())
		if err != nil {
			t.Fatal(err)
		}
		vp := mpegts.NewH264Packetizer(&video, sg)
		var stop int32
		var wg sync.WaitGroup
		for g := 0; g < pollers; g++ {
			g := g
			wg.Add(1)
			go func() {
				defer wg.Done()
				for atomic.LoadInt32(&stop) == 0 {
					pl.M3u8(tokens[g%len(tokens)])
					atomic.AddInt64(&polled, 1)
				}
			}()
		}
		res := map[string][]int{}
		for i := 0; i <= n; i++ {
			p := append([]byte{0x65}, []byte(fmt.Sprintf("V%05d-fresh-frame", i))...)
			ns := int64(i) * 1e9
			vp.Packetize(&codec.Frame{MediaType: codec.MediaTypeVideo, Dts: ns, Pts: ns, Payload: p})
			for _, tok := range tokens {
				raw, err := pl.M3u8(tok)
				if err != nil {
					continue
				}
				l := parseM3u8(append([]byte(nil), raw...))
				seqs := []int{}
				for _, e := range l.Ents {
					seqs = append(seqs, e.Seq)
				}
				res[fmt.Sprintf("%d/%s", i, tok)] = seqs
				if pollers > 0 {
					checked++
					for _, s := range seqs {
						rd, _, err := pl.Segment(s)
						if err != nil {
							finds = append(finds, finding{mode, i, tok, seqs, fmt.Sprintf("listed segment %d does not resolve: %v", s, err)})
							break
						}
						if c, ok := rd.(interface{ Close() error }); ok {
							c.Close()
						}
					}
				}
			}
		}
		atomic.StoreInt32(&stop, 1)
		wg.Wait()
		sg.Close()
		pl.Close()
		return res
	}
	for _, mode := range []string{"memory", "disk"} {
		n := rollovers
		if mode == "disk" {
			n = rollovers / 5
		}
		ref := run(mode, n, 0) // nobody else asks: the reference
		got := run(mode, n, 8)
		if len(ref) < n {
			t.Fatalf("reference run produced %d listings for %d frames", len(ref), n)
		}
		for i := 0; i <= n && len(finds) < 10; i++ {
			for _, tok := range tokens {
				k := fmt.Sprintf("%d/%s", i, tok)
				if fmt.Sprint(ref[k]) != fmt.Sprint(got[k]) {
					finds = append(finds, finding{mode, i, tok, got[k], fmt.Sprintf("after frame %d the playlist lists %v when nobody else asks, %v when other requests are in flight", i, ref[k], got[k])})
				}
			}
		}
	}
	if finds == nil {
		finds = []finding{}
	}
	vio.WriteJSON(t, "VERIF_OUT", map[string]interface{}{"playlists_checked": checked, "polled_meanwhile": atomic.LoadInt64(&polled), "findings": finds})
}
