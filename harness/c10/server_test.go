//go:build verif

package c10

import (
	"crypto/sha1"
	"encoding/hex"
	"encoding/json"
	"fmt"
	"io"
	"net/http"
	"os"
	"path/filepath"
	"sync"
	"testing"
	"time"

	"github.com/cnotch/ipchub/av/codec"
	"github.com/cnotch/ipchub/av/format/hls"
	"github.com/cnotch/ipchub/av/format/mpegts"
	"github.com/cnotch/ipchub/av/format/sdp"
	"github.com/cnotch/ipchub/config"
	"github.com/cnotch/ipchub/media"
	"github.com/cnotch/xlog"
	"verifharness/vio"
	"verifharness/vsrv"
)

func hashOf(b []byte) string {
	h := sha1.Sum(b)
	return hex.EncodeToString(h[:6])
}

// TestHlsServer: the same frame sequences written into a registered media.Stream of a running server, while an HTTP
// client keeps fetching the playlist (with a token) and every listed URI.  What HTTP delivers for a sequence number is
// compared (by TLC, through the trace) with the transport stream a synchronous reference run of the segmenter
// produced for that number from the same frames.
func TestHlsServer(t *testing.T) {
	var behs []behaviour
	vio.Lines(t, "VERIF_IN", func(raw json.RawMessage) {
		var b behaviour
		if err := json.Unmarshal(raw, &b); err != nil {
			t.Fatal(err)
		}
		behs = append(behs, b)
	})
	out := vio.Create(t, os.Getenv("VERIF_OUT"))
	defer out.Close()
	var video codec.VideoMeta
	var audio codec.AudioMeta
	if err := sdp.ParseMetadata(sdpAV, &video, &audio); err != nil {
		t.Fatal(err)
	}
	srv, err := vsrv.Start(false, false)
	if err != nil {
		t.Fatal(err)
	}
	hc := &http.Client{Timeout: 5 * time.Second}
	dir := t.TempDir()
	fetched, lists, stalled := 0, 0, 0
	for tid, b := range behs {
		tid++
		path := fmt.Sprintf("/hls/cam%d", tid)
		segPath := ""
		if !b.Mem {
			segPath = filepath.Join(dir, fmt.Sprintf("s%d", tid))
			os.MkdirAll(segPath, 0o755)
		}
		frag := config.HlsFragment() // what the server will use whatever is asked below 5
		if b.F > frag {
			frag = b.F
		}
		out.Put(map[string]interface{}{"t": tid, "e": "begin", "F": frag, "mem": b.Mem, "path": path})
		// ---- reference: synchronous segmenter on the same frames -------------------------------------------
		refDir := ""
		if !b.Mem {
			refDir = filepath.Join(dir, fmt.Sprintf("r%d", tid))
			os.MkdirAll(refDir, 0o755)
		}
		pl := hls.NewPlaylist()
		sg, err := hls.NewSegmentGenerator(pl, path, frag, refDir, 44100, xlog.L())
		if err != nil {
			t.Fatal(err)
		}
		vp := mpegts.NewH264Packetizer(&video, sg)
		ap := mpegts.NewAacPacketizer(&audio, sg)
		vsrc, asrc := map[int]source{}, map[int]source{}
		var frames []*codec.Frame
		maxSeq := 0
		for i := range b.Hist {
			st := &b.Hist[i]
			if st.Op != "frame" {
				continue
			}
			pts := st.Args.Pts * tick
			p := payload(tid, st.Args.K, st.Args.ID)
			f := &codec.Frame{MediaType: codec.MediaTypeVideo, Dts: pts * 100000 / 9, Pts: pts * 100000 / 9, Payload: p}
			if st.Args.K == "aud" {
				f.MediaType = codec.MediaTypeAudio
				asrc[st.Args.ID] = source{payload: p, pts: pts}
				ap.Packetize(f)
			} else {
				vsrc[st.Args.ID] = source{payload: p, pts: pts, key: st.Args.K == "key"}
				vp.Packetize(f)
			}
			frames = append(frames, f)
			out.Put(map[string]interface{}{"t": tid, "e": "frame", "k": st.Args.K, "id": st.Args.ID, "pts": st.Args.Pts})
			for {
				rd, _, err := pl.Segment(maxSeq + 1)
				if err != nil {
					break
				}
				data, _ := io.ReadAll(rd)
				if c, ok := rd.(io.Closer); ok {
					c.Close()
				}
				maxSeq++
				si := analyse(data, vsrc, asrc)
				out.Put(map[string]interface{}{"t": tid, "e": "seg", "seq": maxSeq, "hash": si.Hash, "bad": si.Bad, "v": si.V, "a": si.A, "fk": si.Fk,
					"prefix": si.Prefix, "intact": si.Intact, "pts_ok": si.PtsOk})
			}
		}
		sg.Close()
		pl.Close()
		if maxSeq < 3 {
			out.Put(map[string]interface{}{"t": tid, "e": "closed", "left": 0})
			continue
		}
		// ---- the server ------------------------------------------------------------------------------------
		config.VerifSet(false, false, b.F, segPath)
		s := media.NewStream(path, sdpAV)
		media.Regist(s)
		h := s.Hlsable()
		if h == nil {
			t.Fatalf("stream without HLS")
		}
		type rec map[string]interface{}
		var mu sync.Mutex
		var recs []rec
		add := func(r rec) { mu.Lock(); recs = append(recs, r); mu.Unlock() }
		tok := fmt.Sprintf("tok%d", tid)
		get := func(url string) (int, []byte) {
			resp, err := hc.Get("http://" + srv.Addr + url)
			if err != nil {
				return -1, nil
			}
			defer resp.Body.Close()
			body, err := io.ReadAll(resp.Body)
			if err != nil {
				return -2, nil
			}
			return resp.StatusCode, body
		}
		round := func(final bool) {
			code, body := get("/streams" + path + ".m3u8?token=" + tok)
			if code != 200 {
				add(rec{"t": tid, "e": "hlist", "final": final, "ok": false, "status": code, "tok": tok, "syntax": true, "target": 0, "mseq": 0, "ents": []ent{}})
				return
			}
			l := parseM3u8(body)
			add(rec{"t": tid, "e": "hlist", "final": final, "ok": true, "status": code, "tok": tok, "syntax": l.Syntax, "target": l.Target, "mseq": l.Mseq, "ents": l.Ents})
			for _, e := range l.Ents {
				u := fmt.Sprintf("/streams%s/%d.ts?token=%s", e.Path, e.Seq, e.Tok)
				c2, data := get(u)
				add(rec{"t": tid, "e": "hseg", "final": final, "seq": e.Seq, "status": c2, "hash": hashOf(data)})
			}
		}
		stop := make(chan struct{})
		var wg sync.WaitGroup
		wg.Add(1)
		go func() {
			defer wg.Done()
			for {
				select {
				case <-stop:
					return
				default:
				}
				if _, _, err := h.Segment(3); err != nil { // the HTTP handler polls for up to 22 s when the playlist is not ready
					if _, err2 := h.M3u8(""); err2 != nil {
						time.Sleep(50 * time.Microsecond)
						continue
					}
				}
				round(false)
			}
		}()
		for i, f := range frames {
			s.WriteFrame(f)
			if i%4 == 3 {
				time.Sleep(300 * time.Microsecond)
			}
		}
		deadline := time.Now().Add(5 * time.Second)
		for {
			if _, _, err := h.Segment(maxSeq); err == nil {
				break
			}
			if time.Now().After(deadline) {
				stalled++
				break
			}
			time.Sleep(200 * time.Microsecond)
		}
		close(stop)
		wg.Wait()
		round(true)
		media.Unregist(s)
		s.Close()
		left := 0
		if !b.Mem {
			time.Sleep(2 * time.Millisecond)
			des, _ := os.ReadDir(segPath)
			left = len(des)
		}
		for _, r := range recs {
			if r["e"] == "hlist" {
				lists++
			} else {
				fetched++
			}
			out.Put(r)
		}
		out.Put(map[string]interface{}{"t": tid, "e": "closed", "left": left})
	}
	config.VerifSet(false, false, 5, "")
	vio.WriteJSON(t, "VERIF_OUT2", map[string]interface{}{"behaviours": len(behs), "lists": lists, "fetched": fetched, "stalled": stalled})
}
