//go:build verif

package c10

import (
	"crypto/sha256"
	"fmt"
	"io"
	"os"
	"path/filepath"
	"testing"
	"time"

	"github.com/cnotch/ipchub/av/codec"
	"github.com/cnotch/ipchub/av/format/hls"
	"github.com/cnotch/ipchub/av/format/mpegts"
	"github.com/cnotch/ipchub/av/format/sdp"
	"github.com/cnotch/ipchub/utils/vhook"
	"github.com/cnotch/xlog"
	"verifharness/vio"
)

// TestHlsOpenRace forces the schedule that Hls.tla's atomic Open(r, i) excludes: a rollover that is attempted while a
// segment fetch is between "found in the window" and "bytes taken" (gate hook hls.seg.found).  In the model Open is one
// critical section under the playlist's read lock, so the outcome must be one of the two serial orders:
// Open;Rollover (the fetch delivers the bytes that sequence number always had) or Rollover;Open (not found, and then the
// rollover must indeed have completed before the fetch returned).  Anything else - other bytes, a panic - is a finding.
func TestHlsOpenRace(t *testing.T) {
	var video codec.VideoMeta
	var audio codec.AudioMeta
	if err := sdp.ParseMetadata(sdpAV, &video, &audio); err != nil {
		t.Fatal(err)
	}
	rounds := 12
	if vio.Thorough() {
		rounds = 60
	}
	type finding struct {
		Mode  string `json:"mode"`
		Round int    `json:"round"`
		Seq   int    `json:"seq"`
		What  string `json:"what"`
	}
	finds := []finding{}
	forced, blocked, completed := 0, 0, 0
	dir := t.TempDir()
	defer vhook.SetHandler(nil)
	for _, mode := range []string{"memory", "disk"} {
		segPath := ""
		if mode == "disk" {
			segPath = filepath.Join(dir, "openrace")
			os.MkdirAll(segPath, 0o755)
		}
		pl := hls.NewPlaylist()
		sg, err := hls.NewSegmentGenerator(pl, "/openrace/"+mode, 1, segPath, 44100, xlog.L())
		if err != nil {
			t.Fatal(err)
		}
		vp := mpegts.NewH264Packetizer(&video, sg)
		frame := 0
		feed := func(n int) {
			for i := 0; i < n; i++ {
				p := append([]byte{0x65}, []byte(fmt.Sprintf("V%05d-openrace-%s-frame-%0*d", frame, mode, 200+frame%700, frame))...)
				ns := int64(frame) * 1e9
				vp.Packetize(&codec.Frame{MediaType: codec.MediaTypeVideo, Dts: ns, Pts: ns, Payload: p})
				frame++
			}
		}
		fetch := func(seq int) (h string, err error) {
			defer func() {
				if r := recover(); r != nil {
					h, err = "", fmt.Errorf("PANIC: %v", r)
				}
			}()
			rd, size, err := pl.Segment(seq)
			if err != nil {
				return "", err
			}
			data, _ := io.ReadAll(rd)
			if c, ok := rd.(io.Closer); ok {
				c.Close()
			}
			if size != len(data) {
				return "", fmt.Errorf("PANIC: announced %d bytes, delivered %d", size, len(data))
			}
			return fmt.Sprintf("%x", sha256.Sum256(data))[:16], nil
		}
		feed(6)
		for i := 0; i < 30; i++ {
			if _, err := pl.M3u8(""); err == nil {
				break
			}
			feed(1)
		}
		for r := 0; r < rounds; r++ {
			raw, err := pl.M3u8("")
			if err != nil {
				t.Fatalf("%s: no playlist after %d frames: %v", mode, frame, err)
			}
			l := parseM3u8(append([]byte(nil), raw...))
			if len(l.Ents) == 0 {
				t.Fatalf("%s: empty playlist", mode)
			}
			seq := l.Ents[r%len(l.Ents)].Seq // oldest, middle, newest in turn
			ref, err := fetch(seq)
			if err != nil {
				finds = append(finds, finding{mode, r, seq, fmt.Sprintf("listed segment does not resolve at quiescence: %v", err)})
				break
			}
			done := make(chan struct{})
			fired := false
			vhook.SetHandler(func(point string, obj interface{}) {
				if point != "hls.seg.found" || obj != interface{}(pl) || fired {
					return
				}
				fired = true
				go func() { feed(5); close(done) }() // five rollovers: the window moves past seq, its buffer is re-used
				select {
				case <-done:
				case <-time.After(150 * time.Millisecond):
				}
			})
			got, gerr := fetch(seq)
			vhook.SetHandler(nil)
			finishedBefore := false
			select {
			case <-done:
				finishedBefore = true
			default:
			}
			if fired {
				forced++
				<-done
			} else {
				feed(5)
			}
			if finishedBefore {
				completed++
			} else {
				blocked++
			}
			switch {
			case gerr == nil && got == ref:
			case gerr != nil && finishedBefore && fmt.Sprint(gerr)[:min(5, len(fmt.Sprint(gerr)))] != "PANIC":
				// Rollover;Open
			case gerr != nil:
				finds = append(finds, finding{mode, r, seq, fmt.Sprintf("fetch of a listed segment failed although the rollover had not completed (or it crashed): %v", gerr)})
			default:
				finds = append(finds, finding{mode, r, seq, fmt.Sprintf("fetch racing a rollover delivered other bytes (%s) than segment %d has (%s)", got, seq, ref)})
			}
		}
		sg.Close()
		pl.Close()
	}
	vio.WriteJSON(t, "VERIF_OUT", map[string]interface{}{"forced": forced, "rollover_blocked_by_reader": blocked, "rollover_completed_inside_fetch": completed, "findings": finds})
}
