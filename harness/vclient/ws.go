//go:build verif

package vclient

import (
	"bufio"
	"crypto/rand"
	"encoding/base64"
	"encoding/binary"
	"fmt"
	"io"
	"net"
	"strings"
	"time"
)

// WS is a minimal RFC 6455 client (independent of gorilla): handshake, masked writes, message reads.
type WS struct {
	C        net.Conn
	br       *bufio.Reader
	Status   int    // HTTP status of the handshake
	Protocol string // negotiated sub-protocol
}

// DialWS opens ws://addr+path with the given sub-protocol ("" = none). A non-101 answer is reported in Status.
// UpgradeHeaders is appended to every WebSocket upgrade request ("Name: value\r\n" lines): headers a client is free to
// send and that must not matter (the authorisation drivers name the administrator in the server's internal header).
var UpgradeHeaders = ""

func DialWS(addr, path, subproto string) (*WS, error) {
	c, err := net.DialTimeout("tcp", addr, 5*time.Second)
	if err != nil {
		return nil, err
	}
	key := make([]byte, 16)
	rand.Read(key)
	req := fmt.Sprintf("GET %s HTTP/1.1\r\nHost: %s\r\nUpgrade: websocket\r\nConnection: Upgrade\r\nSec-WebSocket-Key: %s\r\nSec-WebSocket-Version: 13\r\n",
		path, addr, base64.StdEncoding.EncodeToString(key))
	if subproto != "" {
		req += "Sec-WebSocket-Protocol: " + subproto + "\r\n"
	}
	req += UpgradeHeaders + "\r\n"
	if _, err := c.Write([]byte(req)); err != nil {
		c.Close()
		return nil, err
	}
	w := &WS{C: c, br: bufio.NewReaderSize(c, 256<<10)}
	c.SetReadDeadline(time.Now().Add(5 * time.Second))
	line, err := w.br.ReadString('\n')
	if err != nil {
		c.Close()
		return nil, err
	}
	fmt.Sscanf(line, "HTTP/1.1 %d", &w.Status)
	for {
		l, err := w.br.ReadString('\n')
		if err != nil {
			c.Close()
			return nil, err
		}
		l = strings.TrimRight(l, "\r\n")
		if l == "" {
			break
		}
		if i := strings.IndexByte(l, ':'); i > 0 && strings.EqualFold(l[:i], "Sec-WebSocket-Protocol") {
			w.Protocol = strings.TrimSpace(l[i+1:])
		}
	}
	c.SetReadDeadline(time.Time{})
	return w, nil
}

// Close closes the socket.
func (w *WS) Close() { w.C.Close() }

// WriteMessage sends one masked message (opcode 1 text, 2 binary).
func (w *WS) WriteMessage(opcode byte, payload []byte) error {
	hdr := []byte{0x80 | opcode}
	n := len(payload)
	switch {
	case n < 126:
		hdr = append(hdr, 0x80|byte(n))
	case n < 65536:
		hdr = append(hdr, 0x80|126, byte(n>>8), byte(n))
	default:
		hdr = append(hdr, 0x80|127)
		var b [8]byte
		binary.BigEndian.PutUint64(b[:], uint64(n))
		hdr = append(hdr, b[:]...)
	}
	mask := []byte{0x12, 0x34, 0x56, 0x78}
	hdr = append(hdr, mask...)
	out := make([]byte, n)
	for i := range payload {
		out[i] = payload[i] ^ mask[i%4]
	}
	_, err := w.C.Write(append(hdr, out...))
	return err
}

// ReadMessage reads one complete message (continuation frames assembled; ping/pong skipped).
// opcode 8 = close; err != nil on EOF / timeout.
func (w *WS) ReadMessage(timeout time.Duration) (opcode byte, payload []byte, err error) {
	w.C.SetReadDeadline(time.Now().Add(timeout))
	var msg []byte
	var first byte
	for {
		h := make([]byte, 2)
		if _, err = io.ReadFull(w.br, h); err != nil {
			return 0, nil, err
		}
		fin, op := h[0]&0x80 != 0, h[0]&0x0f
		n := uint64(h[1] & 0x7f)
		if h[1]&0x80 != 0 {
			return 0, nil, fmt.Errorf("server frame is masked")
		}
		switch n {
		case 126:
			b := make([]byte, 2)
			if _, err = io.ReadFull(w.br, b); err != nil {
				return 0, nil, err
			}
			n = uint64(binary.BigEndian.Uint16(b))
		case 127:
			b := make([]byte, 8)
			if _, err = io.ReadFull(w.br, b); err != nil {
				return 0, nil, err
			}
			n = binary.BigEndian.Uint64(b)
		}
		if n > 16<<20 {
			return 0, nil, fmt.Errorf("frame too large")
		}
		p := make([]byte, n)
		if _, err = io.ReadFull(w.br, p); err != nil {
			return 0, nil, err
		}
		if op == 9 || op == 10 {
			continue
		}
		if op != 0 {
			first = op
		}
		msg = append(msg, p...)
		if fin {
			return first, msg, nil
		}
	}
}

// ParseRTSPMessage parses one WebSocket message strictly as exactly one RTSP response or one interleaved frame.
func ParseRTSPMessage(b []byte) Item {
	if len(b) >= 4 && b[0] == '$' {
		n := int(binary.BigEndian.Uint16(b[2:]))
		if len(b) != 4+n {
			return Item{Kind: "torn", Raw: b}
		}
		return Item{Kind: "frame", Channel: int(b[1]), Payload: b[4:]}
	}
	s := string(b)
	if !strings.HasPrefix(s, "RTSP/1.0 ") {
		return Item{Kind: "torn", Raw: b}
	}
	head, body := s, ""
	if i := strings.Index(s, "\r\n\r\n"); i >= 0 {
		head, body = s[:i], s[i+4:]
	} else {
		return Item{Kind: "torn", Raw: b}
	}
	lines := strings.Split(head, "\r\n")
	it := Item{Kind: "response", Header: map[string]string{}}
	fmt.Sscanf(lines[0], "RTSP/1.0 %d", &it.Status)
	if f := strings.SplitN(lines[0], " ", 3); len(f) == 3 {
		it.Reason = f[2]
	}
	for _, l := range lines[1:] {
		i := strings.IndexByte(l, ':')
		if i <= 0 {
			return Item{Kind: "torn", Raw: b}
		}
		it.Header[strings.ToLower(strings.TrimSpace(l[:i]))] = strings.TrimSpace(l[i+1:])
	}
	cl := 0
	fmt.Sscanf(it.Header["content-length"], "%d", &cl)
	if len(body) != cl {
		return Item{Kind: "torn", Raw: b}
	}
	it.Body = body
	return it
}
