//go:build verif

// Package vclient: scripted clients with STRICT parsers written independently of the repository's codecs.
package vclient

import (
	"net/http"
	"bufio"
	"crypto/md5"
	"encoding/binary"
	"encoding/hex"
	"fmt"
	"io"
	"net"
	"strconv"
	"strings"
	"sync"
	"time"
)

// Item is one unit read from an RTSP/TCP connection: a response, an interleaved frame, or garbage.
type Item struct {
	Kind    string // "response" | "frame" | "torn" | "eof" | "timeout"
	Status  int
	Reason  string
	Header  map[string]string // lower-cased names
	Body    string
	Channel int
	Payload []byte
	Raw     []byte // for torn: the offending bytes
}

// RTSP is an RTSP client connection: over TCP, or over WebSocket (one RTSP message per WebSocket message) when ws is set.
type RTSP struct {
	ws      *WS
	wsp     *wspCarrier
	C       net.Conn
	br      *bufio.Reader
	CSeq    int
	Session string
	User    string
	Pass    string
	realm   string
	nonce   string
}

// DialRTSP connects.
func DialRTSP(addr string) (*RTSP, error) {
	c, err := net.DialTimeout("tcp", addr, 5*time.Second)
	if err != nil {
		return nil, err
	}
	return &RTSP{C: c, br: bufio.NewReaderSize(c, 256<<10)}, nil
}

// DialRTSPWS opens an RTSP-over-WebSocket connection (sub-protocol "rtsp") on the given URL path.
func DialRTSPWS(addr, path string) (*RTSP, error) {
	w, err := DialWS(addr, path, "rtsp")
	if err != nil {
		return nil, err
	}
	if w.Status != 101 {
		w.Close()
		return nil, fmt.Errorf("websocket upgrade refused: %d", w.Status)
	}
	return &RTSP{ws: w, C: w.C}, nil
}

// Pending reports whether an item read by the background readers (WSP carrier) waits to be taken.
func (r *RTSP) Pending() bool { return r.wsp != nil && len(r.wsp.items) > 0 }

// Close closes the connection.
func (r *RTSP) Close() {
	if r.wsp != nil {
		r.wsp.ctl.Close()
		r.wsp.data.Close()
		return
	}
	r.C.Close()
}

// wspCarrier: RTSP requests wrapped in the WSP control channel (text messages "WSP/1.1 WRAP"), media on the WSP data
// channel (binary messages, one interleaved frame each).  Both sockets are read by goroutines that feed one queue.
type wspCarrier struct {
	ctl, data *WS
	items     chan Item
	seq       int
}

func wspCall(w *WS, seq int, cmd string, hdr map[string]string, body string) error {
	var b strings.Builder
	fmt.Fprintf(&b, "WSP/1.1 %s\r\n", cmd)
	for k, v := range hdr {
		fmt.Fprintf(&b, "%s: %s\r\n", k, v)
	}
	fmt.Fprintf(&b, "seq: %d\r\n\r\n%s", seq, body)
	return w.WriteMessage(1, []byte(b.String()))
}

// wspReply parses one WSP reply: status code, headers (lower-cased), body
func wspReply(p []byte) (int, map[string]string, string, bool) {
	txt := string(p)
	i := strings.Index(txt, "\r\n\r\n")
	if i < 0 || !strings.HasPrefix(txt, "WSP/1.1 ") {
		return 0, nil, "", false
	}
	lines := strings.Split(txt[:i], "\r\n")
	code := 0
	fmt.Sscanf(lines[0], "WSP/1.1 %d", &code)
	h := map[string]string{}
	for _, l := range lines[1:] {
		if j := strings.Index(l, ":"); j > 0 {
			h[strings.ToLower(strings.TrimSpace(l[:j]))] = strings.TrimSpace(l[j+1:])
		}
	}
	return code, h, txt[i+4:], true
}

func (c *wspCarrier) wrap(rtspRequest string) error {
	c.seq++
	return wspCall(c.ctl, c.seq, "WRAP", nil, rtspRequest)
}

// DialRTSPWSP opens a WSP channel pair on the given URL path (INIT on the control socket, JOIN on the data socket).
func DialRTSPWSP(addr, path string) (*RTSP, error) {
	ctl, err := DialWS(addr, path, "control")
	if err != nil {
		return nil, err
	}
	if ctl.Status != 101 {
		ctl.Close()
		return nil, fmt.Errorf("wsp control upgrade refused: %d", ctl.Status)
	}
	c := &wspCarrier{ctl: ctl, items: make(chan Item, 1<<14)}
	c.seq++
	if err := wspCall(ctl, c.seq, "INIT", map[string]string{"proto": "rtsp", "host": "127.0.0.1", "port": "554"}, ""); err != nil {
		return nil, err
	}
	_, p, err := ctl.ReadMessage(5 * time.Second)
	if err != nil {
		return nil, err
	}
	code, h, _, ok := wspReply(p)
	if !ok || code != 200 || h["channel"] == "" {
		return nil, fmt.Errorf("wsp INIT refused: %d", code)
	}
	data, err := DialWS(addr, path, "data")
	if err != nil || data.Status != 101 {
		ctl.Close()
		return nil, fmt.Errorf("wsp data upgrade refused")
	}
	c.data = data
	c.seq++
	if err := wspCall(data, c.seq, "JOIN", map[string]string{"channel": h["channel"]}, ""); err != nil {
		return nil, err
	}
	if _, p, err = data.ReadMessage(5 * time.Second); err != nil {
		return nil, err
	}
	if code, _, _, ok := wspReply(p); !ok || code != 200 {
		return nil, fmt.Errorf("wsp JOIN refused: %d", code)
	}
	var wg sync.WaitGroup
	wg.Add(2)
	go func() { // control socket: every message is a WSP reply whose body is exactly one RTSP response
		defer wg.Done()
		for {
			op, p, err := ctl.ReadMessage(30 * time.Second)
			if err != nil || op == 8 {
				return
			}
			code, _, body, ok := wspReply(p)
			if !ok || code != 200 {
				c.items <- Item{Kind: "torn", Raw: p}
				continue
			}
			if body == "" {
				continue // reply to a command without payload
			}
			it := ParseRTSPMessage([]byte(body))
			if it.Kind != "response" {
				it = Item{Kind: "torn", Raw: []byte(body)}
			}
			c.items <- it
		}
	}()
	go func() { // data socket: every message is exactly one interleaved frame
		defer wg.Done()
		for {
			op, p, err := data.ReadMessage(30 * time.Second)
			if err != nil || op == 8 {
				return
			}
			it := ParseRTSPMessage(p)
			if it.Kind != "frame" {
				it = Item{Kind: "torn", Raw: p}
			}
			select {
			case c.items <- it:
			default: // the reader of the items does not keep up with the media: frames are only counted anyway
			}
		}
	}()
	go func() { wg.Wait(); close(c.items) }()
	return &RTSP{wsp: c, C: ctl.C}, nil
}

func md5hex(s string) string { h := md5.Sum([]byte(s)); return hex.EncodeToString(h[:]) }

// Send writes one request; returns the CSeq used.
func (r *RTSP) Send(method, url string, hdr map[string]string, body string) (int, error) {
	r.CSeq++
	var b strings.Builder
	fmt.Fprintf(&b, "%s %s RTSP/1.0\r\nCSeq: %d\r\n", method, url, r.CSeq)
	if r.User != "" && r.nonce != "" {
		ha1 := md5hex(r.User + ":" + r.realm + ":" + r.Pass)
		ha2 := md5hex(method + ":" + url)
		resp := md5hex(ha1 + ":" + r.nonce + ":" + ha2)
		fmt.Fprintf(&b, "Authorization: Digest username=\"%s\", realm=\"%s\", nonce=\"%s\", uri=\"%s\", response=\"%s\"\r\n",
			r.User, r.realm, r.nonce, url, resp)
	}
	for k, v := range hdr {
		fmt.Fprintf(&b, "%s: %s\r\n", k, v)
	}
	if body != "" {
		fmt.Fprintf(&b, "Content-Length: %d\r\n", len(body))
	}
	b.WriteString("\r\n")
	b.WriteString(body)
	if r.wsp != nil {
		return r.CSeq, r.wsp.wrap(b.String())
	}
	if r.ws != nil {
		return r.CSeq, r.ws.WriteMessage(2, []byte(b.String()))
	}
	_, err := r.C.Write([]byte(b.String()))
	return r.CSeq, err
}

// Read reads exactly one item, strictly: at an item boundary the next byte is '$' or the 'R' of "RTSP/1.0 ".
func (r *RTSP) Read(timeout time.Duration) Item {
	if r.wsp != nil {
		select {
		case it, ok := <-r.wsp.items:
			if !ok {
				return Item{Kind: "eof"}
			}
			return it
		case <-time.After(timeout):
			return Item{Kind: "timeout"}
		}
	}
	if r.ws != nil { // every WebSocket message must be exactly one response or one frame
		op, p, err := r.ws.ReadMessage(timeout)
		if err != nil {
			if ne, ok := err.(net.Error); ok && ne.Timeout() {
				return Item{Kind: "timeout"}
			}
			return Item{Kind: "eof"}
		}
		if op == 8 {
			return Item{Kind: "eof"}
		}
		return ParseRTSPMessage(p)
	}
	r.C.SetReadDeadline(time.Now().Add(timeout))
	first, err := r.br.Peek(1)
	if err != nil {
		if ne, ok := err.(net.Error); ok && ne.Timeout() {
			return Item{Kind: "timeout"}
		}
		return Item{Kind: "eof"}
	}
	if first[0] == '$' {
		hd := make([]byte, 4)
		if _, err := io.ReadFull(r.br, hd); err != nil {
			return Item{Kind: "torn", Raw: hd}
		}
		n := int(binary.BigEndian.Uint16(hd[2:]))
		p := make([]byte, n)
		if _, err := io.ReadFull(r.br, p); err != nil {
			return Item{Kind: "torn", Raw: append(hd, p...)}
		}
		return Item{Kind: "frame", Channel: int(hd[1]), Payload: p}
	}
	pre, err := r.br.Peek(9)
	if err != nil || string(pre) != "RTSP/1.0 " {
		raw, _ := r.br.Peek(r.br.Buffered())
		return Item{Kind: "torn", Raw: append([]byte(nil), raw...)}
	}
	line, err := r.br.ReadString('\n')
	if err != nil || !strings.HasSuffix(line, "\r\n") {
		return Item{Kind: "torn", Raw: []byte(line)}
	}
	parts := strings.SplitN(strings.TrimRight(line, "\r\n"), " ", 3)
	it := Item{Kind: "response", Header: map[string]string{}}
	if len(parts) < 2 {
		return Item{Kind: "torn", Raw: []byte(line)}
	}
	it.Status, err = strconv.Atoi(parts[1])
	if err != nil {
		return Item{Kind: "torn", Raw: []byte(line)}
	}
	if len(parts) == 3 {
		it.Reason = parts[2]
	}
	for {
		l, err := r.br.ReadString('\n')
		if err != nil || !strings.HasSuffix(l, "\r\n") {
			return Item{Kind: "torn", Raw: []byte(l)}
		}
		l = strings.TrimRight(l, "\r\n")
		if l == "" {
			break
		}
		i := strings.IndexByte(l, ':')
		if i <= 0 || strings.ContainsAny(l[:i], " $") {
			return Item{Kind: "torn", Raw: []byte(l)}
		}
		k := strings.ToLower(strings.TrimSpace(l[:i]))
		v := strings.TrimSpace(l[i+1:])
		if old, ok := it.Header[k]; ok {
			v = old + ", " + v
		}
		it.Header[k] = v
	}
	if cl := it.Header["content-length"]; cl != "" {
		n, err := strconv.Atoi(cl)
		if err != nil || n < 0 || n > 1<<20 {
			return Item{Kind: "torn", Raw: []byte("content-length " + cl)}
		}
		b := make([]byte, n)
		if _, err := io.ReadFull(r.br, b); err != nil {
			return Item{Kind: "torn", Raw: b}
		}
		it.Body = string(b)
	}
	if s := it.Header["session"]; s != "" && r.Session == "" {
		r.Session = s
	}
	if wa := it.Header["www-authenticate"]; strings.HasPrefix(wa, "Digest") {
		r.realm = between(wa, `realm="`, `"`)
		r.nonce = between(wa, `nonce="`, `"`)
	}
	return it
}

func between(s, a, b string) string {
	i := strings.Index(s, a)
	if i < 0 {
		return ""
	}
	s = s[i+len(a):]
	j := strings.Index(s, b)
	if j < 0 {
		return ""
	}
	return s[:j]
}

// Do sends a request and reads until its response (matching CSeq) arrives; interleaved frames and
// foreign responses read meanwhile are returned in extra.
func (r *RTSP) Do(method, url string, hdr map[string]string, body string, timeout time.Duration) (resp Item, extra []Item, err error) {
	cseq, err := r.Send(method, url, hdr, body)
	if err != nil {
		return Item{Kind: "eof"}, nil, err
	}
	deadline := time.Now().Add(timeout)
	for {
		it := r.Read(time.Until(deadline))
		switch it.Kind {
		case "response":
			if it.Header["cseq"] == strconv.Itoa(cseq) {
				return it, extra, nil
			}
			extra = append(extra, it)
		case "frame":
			extra = append(extra, it)
		default:
			return it, extra, nil
		}
	}
}

// SpoofTransport adds, to every HTTP request, the header in which the server itself passes the authenticated user's
// name from one interceptor to the next - naming the administrator.  A client can send any header it likes; who the
// caller is must come from the token alone.
type SpoofTransport struct{ Name string }

func (s SpoofTransport) RoundTrip(r *http.Request) (*http.Response, error) {
	r2 := r.Clone(r.Context())
	r2.Header.Set("user_name_in_token", s.Name)
	return http.DefaultTransport.RoundTrip(r2)
}
