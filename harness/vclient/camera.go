//go:build verif

package vclient

import (
	"bufio"
	"encoding/base64"
	"encoding/binary"
	"fmt"
	"net"
	"strconv"
	"strings"
	"sync"
	"time"
)

// CameraPlan: how the scripted camera answers each handshake step and what it does after PLAY.
type CameraPlan struct {
	Steps []string // kinds for OPTIONS, DESCRIBE, SETUP1, SETUP2, PLAY: ok basic digest always401 e404 e500 malformed silence reset eof
	After string   // stay | disconnect | silence | garbage
	N     int      // packets to send after PLAY
	SDP   string
}

// CameraConn records what happened on one connection from the server.
type CameraConn struct {
	Requests []string // "METHOD url"
	AuthOK   []bool   // per request carrying Authorization: was it correct
	Closed   bool     // the peer closed (or we did)
	PeerEOF  bool     // we saw the peer close first
}

// Camera is a scripted RTSP camera.
type Camera struct {
	L     net.Listener
	User  string
	Pass  string
	mu    sync.Mutex
	plan  CameraPlan
	Conns []*CameraConn
	Hold  chan struct{} // closed by the test to end "stay" connections
}

// NewCamera starts a camera on 127.0.0.1:0.
func NewCamera(user, pass string) (*Camera, error) {
	l, err := net.Listen("tcp", "127.0.0.1:0")
	if err != nil {
		return nil, err
	}
	c := &Camera{L: l, User: user, Pass: pass, Hold: make(chan struct{})}
	go c.serve()
	return c, nil
}

// Addr returns host:port.
func (c *Camera) Addr() string { return c.L.Addr().String() }

// SetPlan installs the plan for the connections accepted from now on and forgets earlier connections.
func (c *Camera) SetPlan(p CameraPlan) {
	c.mu.Lock()
	c.plan = p
	c.Conns = nil
	old := c.Hold
	c.Hold = make(chan struct{})
	c.mu.Unlock()
	close(old)
}

// Snapshot returns copies of the connection records.
func (c *Camera) Snapshot() []CameraConn {
	c.mu.Lock()
	defer c.mu.Unlock()
	var r []CameraConn
	for _, x := range c.Conns {
		r = append(r, *x)
	}
	return r
}

func (c *Camera) serve() {
	for {
		conn, err := c.L.Accept()
		if err != nil {
			return
		}
		c.mu.Lock()
		rec := &CameraConn{}
		c.Conns = append(c.Conns, rec)
		plan, hold := c.plan, c.Hold
		c.mu.Unlock()
		go c.handle(conn, rec, plan, hold)
	}
}

// waitPeer sends nothing more and waits until the peer closes the connection (recorded) or the test releases it.
func (c *Camera) waitPeer(conn net.Conn, br *bufio.Reader, rec *CameraConn, hold chan struct{}) {
	buf := make([]byte, 4096)
	for i := 0; i < 400; i++ {
		select {
		case <-hold:
			return
		default:
		}
		conn.SetReadDeadline(time.Now().Add(50 * time.Millisecond))
		_, err := br.Read(buf)
		if err != nil {
			if ne, ok := err.(net.Error); ok && ne.Timeout() {
				continue
			}
			c.set(rec, func(r *CameraConn) { r.PeerEOF = true })
			return
		}
	}
}

func (c *Camera) set(rec *CameraConn, f func(*CameraConn)) {
	c.mu.Lock()
	f(rec)
	c.mu.Unlock()
}

func (c *Camera) handle(conn net.Conn, rec *CameraConn, plan CameraPlan, hold chan struct{}) {
	defer func() { conn.Close(); c.set(rec, func(r *CameraConn) { r.Closed = true }) }()
	br := bufio.NewReader(conn)
	setups := 0
	challenged := map[string]bool{}
	challengedTwice := map[string]bool{}
	nonce := "c0ffee0123456789"
	for {
		conn.SetReadDeadline(time.Now().Add(20 * time.Second))
		line, err := br.ReadString('\n')
		if err != nil {
			c.set(rec, func(r *CameraConn) { r.PeerEOF = true })
			return
		}
		parts := strings.Fields(line)
		if len(parts) < 3 {
			continue
		}
		method, url := parts[0], parts[1]
		hdr := map[string]string{}
		for {
			l, err := br.ReadString('\n')
			if err != nil {
				return
			}
			l = strings.TrimRight(l, "\r\n")
			if l == "" {
				break
			}
			if i := strings.IndexByte(l, ':'); i > 0 {
				hdr[strings.ToLower(l[:i])] = strings.TrimSpace(l[i+1:])
			}
		}
		c.set(rec, func(r *CameraConn) { r.Requests = append(r.Requests, method+" "+url) })
		step := -1
		switch method {
		case "OPTIONS":
			step = 0
			if setups > 0 || len(rec.Requests) > 6 {
				step = -2 // keep-alive during play
			}
		case "DESCRIBE":
			step = 1
		case "SETUP":
			step = 2 + setups
		case "PLAY":
			step = 4
		}
		cseq := hdr["cseq"]
		reply := func(code int, reason string, extra map[string]string, body string) {
			var b strings.Builder
			fmt.Fprintf(&b, "RTSP/1.0 %d %s\r\nCSeq: %s\r\nSession: 12345678;timeout=60\r\n", code, reason, cseq)
			for k, v := range extra {
				fmt.Fprintf(&b, "%s: %s\r\n", k, v)
			}
			if body != "" {
				fmt.Fprintf(&b, "Content-Type: application/sdp\r\nContent-Length: %d\r\n", len(body))
			}
			b.WriteString("\r\n" + body)
			conn.Write([]byte(b.String()))
		}
		if step == -2 {
			reply(200, "OK", nil, "")
			continue
		}
		kind := "ok"
		if step >= 0 && step < len(plan.Steps) {
			kind = plan.Steps[step]
		}
		authz := hdr["authorization"]
		authOK := false
		if authz != "" {
			if strings.HasPrefix(authz, "Basic ") {
				raw, _ := base64.StdEncoding.DecodeString(strings.TrimPrefix(authz, "Basic "))
				authOK = string(raw) == c.User+":"+c.Pass
			} else if strings.HasPrefix(authz, "Digest ") {
				if step >= 0 { // every step issues its own nonce: an answer computed with an older nonce is stale
					nonce = fmt.Sprintf("c0ffee%02d23456789", step)
				}
				want := md5hex(md5hex(c.User+":cam:"+c.Pass) + ":" + nonce + ":" + md5hex(method+":"+between(authz, `uri="`, `"`)))
				authOK = between(authz, `response="`, `"`) == want && between(authz, `username="`, `"`) == c.User
			}
			c.set(rec, func(r *CameraConn) { r.AuthOK = append(r.AuthOK, authOK) })
		}
		key := fmt.Sprint(step)
		if kind == "digest-silence" { // a challenge first; the request that carries the right credentials is never answered
			if authOK {
				kind = "silence"
			} else {
				reply(401, "Unauthorized", map[string]string{"WWW-Authenticate": `Digest realm="cam", nonce="` + fmt.Sprintf("c0ffee%02d23456789", step) + `"`}, "")
				continue
			}
		}
		switch kind {
		case "basic", "digest":
			if !authOK {
				if challenged[key] && authz != "" && challengedTwice[key] { // credentials offered and wrong again: keep refusing
					kind = "always401"
				} else {
					if challenged[key] && authz != "" {
						challengedTwice[key] = true
					}
					challenged[key] = true
				}
				wa := `Basic realm="cam"`
				if plan.Steps[step] == "digest" {
					wa = `Digest realm="cam", nonce="` + fmt.Sprintf("c0ffee%02d23456789", step) + `", stale=true`
				}
				reply(401, "Unauthorized", map[string]string{"WWW-Authenticate": wa}, "")
				continue
			}
			kind = "ok"
		}
		switch kind {
		case "always401":
			reply(401, "Unauthorized", map[string]string{"WWW-Authenticate": `Digest realm="cam", nonce="` + nonce + `"`}, "")
			continue
		case "e404":
			reply(404, "Not Found", nil, "")
			continue
		case "e500":
			reply(500, "Internal Server Error", nil, "")
			continue
		case "malformed":
			conn.Write([]byte("HELLO THIS IS NOT RTSP\r\nAt: all\r\n\r\n"))
			continue
		case "silence":
			c.waitPeer(conn, br, rec, hold)
			return
		case "reset":
			if tc, ok := conn.(*net.TCPConn); ok {
				tc.SetLinger(0)
			}
			return
		case "eof":
			return
		}
		// ok
		switch method {
		case "OPTIONS":
			reply(200, "OK", map[string]string{"Public": "OPTIONS, DESCRIBE, SETUP, PLAY, TEARDOWN"}, "")
		case "DESCRIBE":
			reply(200, "OK", map[string]string{"Content-Base": url + "/"}, plan.SDP)
		case "SETUP":
			setups++
			reply(200, "OK", map[string]string{"Transport": hdr["transport"]}, "")
		case "PLAY":
			reply(200, "OK", map[string]string{"Range": "npt=0.000-"}, "")
			for i := 1; i <= plan.N; i++ {
				p := make([]byte, 12+8)
				p[0], p[1] = 0x80, 0x80|96
				binary.BigEndian.PutUint16(p[2:], uint16(i))
				binary.BigEndian.PutUint32(p[4:], uint32(i)*3600)
				binary.BigEndian.PutUint32(p[8:], 0x77)
				copy(p[12:], []byte{0x41, 0x9a, 0x02, 0x00})
				binary.BigEndian.PutUint32(p[16:], uint32(i))
				hd := []byte{'$', 0, byte(len(p) >> 8), byte(len(p))}
				if _, err := conn.Write(append(hd, p...)); err != nil {
					return
				}
			}
			switch plan.After {
			case "disconnect":
				return
			case "garbage":
				conn.Write([]byte("\x00\x01garbage that is neither a frame nor a message\r\n\r\n"))
				c.waitPeer(conn, br, rec, hold)
				return
			case "silence":
				c.waitPeer(conn, br, rec, hold)
				return
			default: // stay: keep sending slowly until released, answering keep-alives
				go func() {
					i := plan.N
					for {
						select {
						case <-hold:
							conn.Close()
							return
						case <-time.After(5 * time.Millisecond):
						}
						i++
						p := make([]byte, 12+8)
						p[0], p[1] = 0x80, 0x80|96
						binary.BigEndian.PutUint16(p[2:], uint16(i))
						binary.BigEndian.PutUint32(p[4:], uint32(i)*3600)
						binary.BigEndian.PutUint32(p[8:], 0x77)
						copy(p[12:], []byte{0x41, 0x9a, 0x02, 0x00})
						binary.BigEndian.PutUint32(p[16:], uint32(i))
						hd := []byte{'$', 0, byte(len(p) >> 8), byte(len(p))}
						if _, err := conn.Write(append(hd, p...)); err != nil {
							return
						}
					}
				}()
			}
		default:
			reply(200, "OK", nil, "")
		}
	}
}

var _ = strconv.Itoa
