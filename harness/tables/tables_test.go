//go:build verif

// Package tables: replays TLC-generated histories of spec/tables (RouteTable.tla,
// UserTable.tla, Durable.tla) on provider/route and provider/auth with the real JSON
// providers, comparing the table after every operation, every lookup, and what a
// restarted process loads after a crash at every file-system step of a flush.
package tables

import (
	"encoding/json"
	"fmt"
	"os"
	"os/exec"
	"path/filepath"
	"sort"
	"strings"
	"sync"
	"sync/atomic"
	"syscall"
	"testing"
	"time"

	"github.com/cnotch/ipchub/provider/auth"
	"github.com/cnotch/ipchub/provider/route"
	"github.com/cnotch/ipchub/utils/vhook"
	"verifharness/vio"
)

type chars []string

func (c chars) S() string { return strings.Join(c, "") }

// ---------------------------------------------------------------- routes

type routeImg struct {
	Pattern chars `json:"pattern"`
	URL     chars `json:"url"`
	KA      bool  `json:"ka"`
	None    bool  `json:"none"`
}

func (r routeImg) String() string {
	if r.None {
		return "none"
	}
	return fmt.Sprintf("%s->%s ka=%v", r.Pattern.S(), r.URL.S(), r.KA)
}

type routeOp struct {
	Op      string     `json:"op"`
	Pattern chars      `json:"pattern"`
	URL     chars      `json:"url"`
	KA      bool       `json:"ka"`
	Table   []routeImg `json:"table"`
	Disk    []routeImg `json:"disk"`
}

type routeHist struct {
	Hist  []routeOp `json:"hist"`
	Match []struct {
		Req chars    `json:"req"`
		Res routeImg `json:"res"`
	} `json:"match"`
}

type mismatch struct {
	Hist string `json:"hist"`
	Step int    `json:"step"`
	Kind string `json:"kind"`
	Want string `json:"want"`
	Got  string `json:"got"`
}

func imgSet(rs []routeImg) string {
	var s []string
	for _, r := range rs {
		s = append(s, r.String())
	}
	sort.Strings(s)
	return strings.Join(s, " | ")
}

func realRoutes() (string, bool) {
	var s []string
	dup := false
	seen := map[string]bool{}
	for _, r := range route.All() {
		if seen[r.Pattern] {
			dup = true
		}
		seen[r.Pattern] = true
		s = append(s, fmt.Sprintf("%s->%s ka=%v", r.Pattern, r.URL, r.KeepAlive))
	}
	sort.Strings(s)
	return strings.Join(s, " | "), dup
}

func routeOpsString(h []routeOp) string {
	var s []string
	for _, o := range h {
		switch o.Op {
		case "save":
			s = append(s, fmt.Sprintf("save(%q,%s,%v)", o.Pattern.S(), o.URL.S(), o.KA))
		case "del":
			s = append(s, fmt.Sprintf("del(%q)", o.Pattern.S()))
		case "savebad":
			s = append(s, fmt.Sprintf("save(%q,<a URL that does not parse>)", o.Pattern.S()))
		default:
			s = append(s, o.Op)
		}
	}
	return strings.Join(s, ";")
}

func configureRouteFile(t testing.TB, path string) {
	if err := route.JSON.Configure(map[string]interface{}{"file": path}); err != nil {
		t.Fatal(err)
	}
}

func applyRouteOp(o routeOp) {
	switch o.Op {
	case "save":
		if err := route.Save(&route.Route{Pattern: o.Pattern.S(), URL: o.URL.S(), KeepAlive: o.KA}); err != nil {
			panic(err)
		}
	case "savebad": // a target URL that does not parse: the edit is refused, and a refused edit changes nothing
		route.Save(&route.Route{Pattern: o.Pattern.S(), URL: "rtsp://192.168.1.10:55a/live", KeepAlive: o.KA})
	case "del":
		route.Del(o.Pattern.S())
	case "flush":
		if err := route.Flush(); err != nil {
			panic(err)
		}
	case "restart":
		route.Reset(route.JSON)
	}
}

func TestRoutes(t *testing.T) {
	dir := t.TempDir()
	file := filepath.Join(dir, "routetable.json")
	configureRouteFile(t, file)
	var mism []mismatch
	add := func(m mismatch) {
		if len(mism) < 100 {
			mism = append(mism, m)
		}
	}
	hists, steps, lookups := 0, 0, 0
	distinct := map[string]bool{}
	vio.Lines(t, "VERIF_IN", func(raw json.RawMessage) {
		var h routeHist
		if err := json.Unmarshal(raw, &h); err != nil {
			t.Fatalf("bad line: %v", err)
		}
		hists++
		name := routeOpsString(h.Hist)
		distinct[name] = true
		os.Remove(file)
		os.Remove(file + ".tmp")
		route.Reset(route.JSON)
		func() {
			defer func() {
				if e := recover(); e != nil {
					add(mismatch{name, -1, "panic", "", fmt.Sprint(e)})
				}
			}()
			for i, o := range h.Hist {
				applyRouteOp(o)
				steps++
				got, dup := realRoutes()
				if want := imgSet(o.Table); got != want {
					add(mismatch{name, i, "table-after-" + o.Op, want, got})
					return
				}
				if dup {
					add(mismatch{name, i, "duplicate-entry", "", got})
					return
				}
			}
			// lookups on the table as the history left it (derived indexes included) ...
			before, _ := realRoutes()
			for _, m := range h.Match {
				for k := 0; k < 16; k++ { // Go randomises map iteration order
					r := route.Match(m.Req.S())
					lookups++
					got := "none"
					if r != nil {
						got = fmt.Sprintf("%s->%s ka=%v", r.Pattern, r.URL, r.KeepAlive)
					}
					if got != m.Res.String() {
						add(mismatch{name, len(h.Hist), "match(" + m.Req.S() + ")", m.Res.String(), got})
						break
					}
					if r != nil {
						r.URL = "scribbled" // the caller owns the result; the table must not alias it
						r.Pattern = "/scribbled"
					}
				}
			}
			after, _ := realRoutes()
			if before != after {
				add(mismatch{name, len(h.Hist), "table-modified-by-lookup", before, after})
			}
			// universal suffix: whatever the history, a flush followed by a restart reloads the same table
			if n := len(h.Hist); n > 0 {
				want := imgSet(h.Hist[n-1].Table)
				route.Flush()
				route.Reset(route.JSON)
				if got, _ := realRoutes(); got != want {
					add(mismatch{name, n, "table-after-final-flush+restart", want, got})
					return
				}
			}
			// ... and again on the table as reloaded
			before, _ = realRoutes()
			for _, m := range h.Match {
				for k := 0; k < 16; k++ { // Go randomises map iteration order
					r := route.Match(m.Req.S())
					lookups++
					got := "none"
					if r != nil {
						got = fmt.Sprintf("%s->%s ka=%v", r.Pattern, r.URL, r.KeepAlive)
					}
					if got != m.Res.String() {
						add(mismatch{name, len(h.Hist), "match(" + m.Req.S() + ")", m.Res.String(), got})
						break
					}
					if r != nil {
						r.URL = "scribbled" // the caller owns the result; the table must not alias it
						r.Pattern = "/scribbled"
					}
				}
			}
			after, _ = realRoutes()
			if before != after {
				add(mismatch{name, len(h.Hist), "table-modified-by-lookup", before, after})
			}
			// Get returns the stored entry for every present pattern
			if n := len(h.Hist); n > 0 {
				for _, e := range h.Hist[n-1].Table {
					r := route.Get(e.Pattern.S())
					if r == nil || r.URL != e.URL.S() {
						add(mismatch{name, n, "get(" + e.Pattern.S() + ")", e.String(), fmt.Sprint(r)})
					}
				}
			}
		}()
	})
	vio.WriteJSON(t, "VERIF_OUT", map[string]interface{}{"histories": hists, "distinct": len(distinct),
		"steps": steps, "lookups": lookups, "mismatches": mism})
}

// ---------------------------------------------------------------- users

type userImg struct {
	Name  string `json:"name"`
	Pw    string `json:"pw"`
	Admin bool   `json:"admin"`
	Pull  string `json:"pull"`
	Push  string `json:"push"`
}

type userOp struct {
	Op    string    `json:"op"`
	Name  string    `json:"name"`
	Pw    string    `json:"pw"`
	Admin bool      `json:"admin"`
	Pull  string    `json:"pull"`
	Upd   bool      `json:"upd"`
	Table []userImg `json:"table"`
	Disk  []userImg `json:"disk"`
}

type userHist struct {
	Hist []userOp `json:"hist"`
}

func userSet(us []userImg) string {
	var s []string
	for _, u := range us {
		s = append(s, fmt.Sprintf("%s pw=%s admin=%v pull=%q push=%q", u.Name, u.Pw, u.Admin, u.Pull, u.Push))
	}
	sort.Strings(s)
	return strings.Join(s, " | ")
}

func norm(admin bool, r string) string {
	if admin && r == "" {
		return "*"
	}
	return r
}

func realUsers() (string, bool) {
	var s []string
	dup := false
	seen := map[string]bool{}
	for _, u := range auth.All() {
		if seen[u.Name] {
			dup = true
		}
		seen[u.Name] = true
		s = append(s, fmt.Sprintf("%s pw=%s admin=%v pull=%q push=%q", u.Name, u.Password, u.Admin,
			norm(u.Admin, u.PullAccess), norm(u.Admin, u.PushAccess)))
	}
	sort.Strings(s)
	return strings.Join(s, " | "), dup
}

func userOpsString(h []userOp) string {
	var s []string
	for _, o := range h {
		switch o.Op {
		case "save":
			s = append(s, fmt.Sprintf("save(%q,%s,admin=%v,pull=%q,upd=%v)", o.Name, o.Pw, o.Admin, o.Pull, o.Upd))
		case "del":
			s = append(s, fmt.Sprintf("del(%q)", o.Name))
		default:
			s = append(s, o.Op)
		}
	}
	return strings.Join(s, ";")
}

func applyUserOp(o userOp) {
	switch o.Op {
	case "save":
		if err := auth.Save(&auth.User{Name: o.Name, Password: o.Pw, Admin: o.Admin, PullAccess: o.Pull}, o.Upd); err != nil {
			panic(err)
		}
	case "del":
		auth.Del(o.Name)
	case "flush":
		if err := auth.Flush(); err != nil {
			panic(err)
		}
	case "restart":
		auth.Reset(auth.JSON)
	}
}

func configureUserFile(t testing.TB, path string) {
	if err := auth.JSON.Configure(map[string]interface{}{"file": path}); err != nil {
		t.Fatal(err)
	}
}

func TestUsers(t *testing.T) {
	dir := t.TempDir()
	file := filepath.Join(dir, "users.json")
	configureUserFile(t, file)
	var mism []mismatch
	add := func(m mismatch) {
		if len(mism) < 100 {
			mism = append(mism, m)
		}
	}
	hists, steps := 0, 0
	distinct := map[string]bool{}
	vio.Lines(t, "VERIF_IN", func(raw json.RawMessage) {
		var h userHist
		if err := json.Unmarshal(raw, &h); err != nil {
			t.Fatalf("bad line: %v", err)
		}
		hists++
		name := userOpsString(h.Hist)
		distinct[name] = true
		os.Remove(file)
		os.Remove(file + ".tmp")
		auth.Reset(auth.JSON)
		func() {
			defer func() {
				if e := recover(); e != nil {
					add(mismatch{name, -1, "panic", "", fmt.Sprint(e)})
				}
			}()
			for i, o := range h.Hist {
				applyUserOp(o)
				steps++
				got, dup := realUsers()
				if want := userSet(o.Table); got != want {
					add(mismatch{name, i, "table-after-" + o.Op, want, got})
					return
				}
				if dup {
					add(mismatch{name, i, "duplicate-entry", "", got})
					return
				}
				for _, e := range o.Table {
					if u := auth.Get(strings.ToUpper(e.Name)); u == nil || u.Name != e.Name {
						add(mismatch{name, i, "get(" + e.Name + ")", e.Name, fmt.Sprint(u)})
						return
					}
				}
			}
			// universal suffix: whatever the history, a flush followed by a restart reloads the same table
			if n := len(h.Hist); n > 0 {
				want := userSet(h.Hist[n-1].Table)
				auth.Flush()
				auth.Reset(auth.JSON)
				if got, _ := realUsers(); got != want {
					add(mismatch{name, n, "table-after-final-flush+restart", want, got})
				}
			}
		}()
	})
	vio.WriteJSON(t, "VERIF_OUT", map[string]interface{}{"histories": hists, "distinct": len(distinct),
		"steps": steps, "mismatches": mism})
}

// ---------------------------------------------------------------- crash during flush

type crashPlan struct {
	Steps      []string `json:"steps"`
	ExpectMain string   `json:"expect_main"`
}

type childSpec struct {
	Kind   string          `json:"kind"` // user | route
	File   string          `json:"file"`
	Log    string          `json:"log"`
	Hist   json.RawMessage `json:"hist"`
	KillAt string          `json:"kill_at"` // hook point after which the process dies ("" = before the flush starts)
}

// TestCrashChild is the process that dies. It is only meaningful when re-executed by TestCrash.
func TestCrashChild(t *testing.T) {
	raw := os.Getenv("VERIF_CHILD")
	if raw == "" {
		t.Skip("child only")
	}
	var cs childSpec
	if err := json.Unmarshal([]byte(raw), &cs); err != nil {
		t.Fatal(err)
	}
	logf, err := os.OpenFile(cs.Log, os.O_CREATE|os.O_APPEND|os.O_WRONLY, 0o644)
	if err != nil {
		t.Fatal(err)
	}
	armed := false
	die := func() {
		syscall.Kill(os.Getpid(), syscall.SIGKILL)
		select {}
	}
	vhook.SetHandler(func(p string, x interface{}) {
		if !armed || !strings.HasPrefix(p, "json.") {
			return
		}
		fmt.Fprintln(logf, p)
		if p != cs.KillAt {
			return
		}
		if p == "json.write" { // die in the middle of the write: half the bytes reach the file
			a := x.([2]interface{})
			f, b := a[0].(*os.File), a[1].([]byte)
			f.Write(b[:len(b)/2])
		}
		die()
	})
	if cs.Kind == "user" {
		configureUserFile(t, cs.File)
		auth.Reset(auth.JSON)
		var h []userOp
		json.Unmarshal(cs.Hist, &h)
		for _, o := range h {
			applyUserOp(o)
		}
		armed = true
		if cs.KillAt == "" {
			die()
		}
		auth.Flush()
	} else {
		configureRouteFile(t, cs.File)
		route.Reset(route.JSON)
		var h []routeOp
		json.Unmarshal(cs.Hist, &h)
		for _, o := range h {
			applyRouteOp(o)
		}
		armed = true
		if cs.KillAt == "" {
			die()
		}
		route.Flush()
	}
	fmt.Fprintln(logf, "completed")
}

type crashResult struct {
	Kind     string   `json:"kind"`
	Hist     string   `json:"hist"`
	KillAt   string   `json:"kill_at"`
	Fired    []string `json:"fired"`
	Outcome  string   `json:"outcome"` // old | new | VIOLATION:<what> | noflush | drift:<what>
	Old, New string
	Loaded   string `json:"loaded"`
}

func TestCrash(t *testing.T) {
	dir := t.TempDir()
	var plans []crashPlan
	vio.Lines(t, "VERIF_CRASH", func(raw json.RawMessage) {
		var p crashPlan
		if err := json.Unmarshal(raw, &p); err != nil {
			t.Fatal(err)
		}
		plans = append(plans, p)
	})
	// distinct kill points (the model prints one line per initial file state)
	kills := []string{}
	seen := map[string]bool{}
	var full []string
	for _, p := range plans {
		k := ""
		if len(p.Steps) > 0 {
			k = p.Steps[len(p.Steps)-1]
		}
		if !seen[k] {
			seen[k] = true
			kills = append(kills, k)
		}
		if len(p.Steps) > len(full) {
			full = p.Steps
		}
	}
	var uh []userHist
	vio.Lines(t, "VERIF_USERS", func(raw json.RawMessage) {
		var h userHist
		json.Unmarshal(raw, &h)
		uh = append(uh, h)
	})
	var rh []routeHist
	vio.Lines(t, "VERIF_ROUTES", func(raw json.RawMessage) {
		var h routeHist
		json.Unmarshal(raw, &h)
		rh = append(rh, h)
	})
	var results []crashResult
	run := func(kind, name string, hist interface{}, old, new string, kill string, idx int) {
		file := filepath.Join(dir, fmt.Sprintf("%s_%d.json", kind, idx))
		logp := file + ".log"
		os.Remove(file)
		os.Remove(file + ".tmp")
		os.Remove(logp)
		hb, _ := json.Marshal(hist)
		spec, _ := json.Marshal(childSpec{Kind: kind, File: file, Log: logp, Hist: hb, KillAt: kill})
		cmd := exec.Command(os.Args[0], "-test.run=^TestCrashChild$", "-test.count=1")
		cmd.Env = append(os.Environ(), "VERIF_CHILD="+string(spec))
		out, err := cmd.CombinedOutput()
		res := crashResult{Kind: kind, Hist: name, KillAt: kill, Old: old, New: new}
		lb, _ := os.ReadFile(logp)
		res.Fired = strings.Fields(string(lb))
		completed := len(res.Fired) > 0 && res.Fired[len(res.Fired)-1] == "completed"
		killed := false
		if ee, ok := err.(*exec.ExitError); ok {
			if ws, ok := ee.Sys().(syscall.WaitStatus); ok && ws.Signaled() {
				killed = true
			}
		}
		if !killed && !completed {
			t.Fatalf("child neither killed nor completed: %v\n%s", err, out)
		}
		// what does a restarted server load?
		loaded := func() (s string) {
			defer func() {
				if e := recover(); e != nil {
					s = fmt.Sprintf("<unloadable: %v>", e)
				}
			}()
			if kind == "user" {
				configureUserFile(t, file)
				auth.Reset(auth.JSON)
				s, _ = realUsers()
			} else {
				configureRouteFile(t, file)
				route.Reset(route.JSON)
				s, _ = realRoutes()
			}
			return
		}()
		res.Loaded = loaded
		switch {
		case loaded == new:
			res.Outcome = "new"
		case loaded == old:
			res.Outcome = "old"
		default:
			res.Outcome = "VIOLATION:restart after crash at " + kill + " loads neither the previous nor the new table"
		}
		if kill == "<none>" {
			if loaded == new {
				res.Outcome = "complete"
			} else {
				res.Outcome = "VIOLATION:a completed flush followed by a restart does not load the new table"
			}
		} else if completed && len(res.Fired) == 1 && kill != "" {
			res.Outcome = "noflush" // nothing pending: no write happened at all
		} else if completed && kill != "" && !strings.HasPrefix(res.Outcome, "VIOLATION") {
			res.Outcome = "drift:kill point " + kill + " never reached; fired=" + strings.Join(res.Fired, ",")
		}
		// life goes on after the crash: shrink the loaded table to one entry, flush, restart.
		// (a temporary file left behind by the crashed flush must not leak into the new file)
		if !strings.HasPrefix(res.Outcome, "VIOLATION") && !strings.HasPrefix(loaded, "<unloadable") {
			rec := func() (s string) {
				defer func() {
					if e := recover(); e != nil {
						s = fmt.Sprintf("<unloadable: %v>", e)
					}
				}()
				want := ""
				if kind == "user" {
					us := auth.All()
					for i, u := range us {
						if i > 0 {
							auth.Del(u.Name)
						}
					}
					want, _ = realUsers()
					auth.Flush()
					auth.Reset(auth.JSON)
					got, _ := realUsers()
					if got != want {
						return "after recovery expected {" + want + "} loaded {" + got + "}"
					}
				} else {
					rs := route.All()
					for i, r := range rs {
						if i > 0 {
							route.Del(r.Pattern)
						}
					}
					want, _ = realRoutes()
					route.Flush()
					route.Reset(route.JSON)
					got, _ := realRoutes()
					if got != want {
						return "after recovery expected {" + want + "} loaded {" + got + "}"
					}
				}
				return ""
			}()
			if rec != "" {
				res.Outcome = "VIOLATION:after a crash at " + kill + ", restart, deleting all but one entry, flush and restart: " + rec
			}
		}
		os.Remove(file)
		os.Remove(file + ".tmp")
		os.Remove(logp)
		results = append(results, res)
	}
	// a complete flush must go through exactly the model's step sequence (conformance of the step model)
	idx := 0
	for i, h := range uh {
		if len(h.Hist) == 0 {
			continue
		}
		last := h.Hist[len(h.Hist)-1]
		old, new := userSet(last.Disk), userSet(last.Table)
		_ = i
		for _, k := range kills { // every history x every crash point
			idx++
			run("user", userOpsString(h.Hist), h.Hist, old, new, k, idx)
		}
		idx++
		run("user", userOpsString(h.Hist), h.Hist, old, new, "<none>", idx)
	}
	for _, h := range rh {
		if len(h.Hist) == 0 {
			continue
		}
		last := h.Hist[len(h.Hist)-1]
		old, new := imgSet(last.Disk), imgSet(last.Table)
		for _, k := range kills {
			idx++
			run("route", routeOpsString(h.Hist), h.Hist, old, new, k, idx)
		}
	}
	vio.WriteJSON(t, "VERIF_OUT", map[string]interface{}{"results": results, "model_steps": full, "kills": kills})
}

// TestRouteRace: lookups running beside an update of the matched directory route must resolve against the route as
// it was before or as it is after the update - the URL joined with exactly one '/'.
func TestRouteRace(t *testing.T) {
	dir := t.TempDir()
	_ = dir
	route.Reset(nopRoutes{})
	// the table keeps the first saved *Route and updates it in place: use constants, never a saved object's fields
	const urlA, urlB = "rtsp://a:554/x/", "rtsp://b:554/yy"
	route.Save(&route.Route{Pattern: "/x/", URL: urlA})
	okA, okB := "rtsp://a:554/x/live1", "rtsp://b:554/yy/live1"
	var wrong int32
	var sample atomic.Value
	stop := make(chan struct{})
	var wg sync.WaitGroup
	for i := 0; i < 4; i++ {
		wg.Add(1)
		go func() {
			defer wg.Done()
			for {
				select {
				case <-stop:
					return
				default:
				}
				if r := route.Match("/x/live1"); r == nil || (r.URL != okA && r.URL != okB) {
					atomic.AddInt32(&wrong, 1)
					if r != nil {
						sample.Store(r.URL)
					} else {
						sample.Store("none")
					}
				}
			}
		}()
	}
	deadline := time.Now().Add(1500 * time.Millisecond)
	n := 0
	for time.Now().Before(deadline) {
		route.Save(&route.Route{Pattern: "/x/", URL: urlB})
		route.Save(&route.Route{Pattern: "/x/", URL: urlA})
		n += 2
	}
	close(stop)
	wg.Wait()
	s, _ := sample.Load().(string)
	vio.WriteJSON(t, "VERIF_OUT", map[string]interface{}{"updates": n, "wrong": atomic.LoadInt32(&wrong), "sample": s})
}

type nopRoutes struct{}

func (nopRoutes) LoadAll() ([]*route.Route, error)                { return nil, nil }
func (nopRoutes) Flush(full, saves, removes []*route.Route) error { return nil }

// TestFlushRace: an edit arrives while a flush is writing the file (the flush is held at the hook json.write).  Whatever
// the order the table settles on, the edit is not forgotten: after the next flush and a restart it is in the table.
func TestFlushRace(t *testing.T) {
	dir := t.TempDir()
	type outcome struct {
		Table  string `json:"table"`
		Rounds int    `json:"rounds"`
		Lost   int    `json:"lost"`
		Sample string `json:"sample"`
	}
	var outs []outcome
	var armed int32
	parked := make(chan struct{}, 1)
	release := make(chan struct{})
	vhook.SetHandler(func(p string, x interface{}) {
		if p == "json.write" && atomic.CompareAndSwapInt32(&armed, 1, 0) {
			parked <- struct{}{}
			select {
			case <-release:
			case <-time.After(5 * time.Second):
			}
		}
	})
	defer vhook.SetHandler(nil)
	rounds := 20
	// ---- routes
	configureRouteFile(t, dir+"/routes.json")
	route.Reset(route.JSON)
	ro := outcome{Table: "routes", Rounds: rounds}
	for k := 0; k < rounds; k++ {
		a, b := fmt.Sprintf("/r%da", k), fmt.Sprintf("/r%db", k)
		route.Save(&route.Route{Pattern: a, URL: "rtsp://h/a"})
		release = make(chan struct{})
		atomic.StoreInt32(&armed, 1)
		var wg sync.WaitGroup
		wg.Add(1)
		go func() { defer wg.Done(); route.Flush() }()
		select {
		case <-parked:
		case <-time.After(2 * time.Second):
			t.Fatal("flush did not reach json.write")
		}
		wg.Add(1)
		go func() { defer wg.Done(); route.Save(&route.Route{Pattern: b, URL: "rtsp://h/b"}) }()
		time.Sleep(5 * time.Millisecond)
		close(release)
		wg.Wait()
		route.Flush()
		route.Reset(route.JSON) // restart: what is in the file now
		if route.Get(a) == nil || route.Get(b) == nil {
			ro.Lost++
			if ro.Sample == "" {
				ro.Sample = fmt.Sprintf("after save(%s); flush || save(%s); flush; restart: %s present=%v, %s present=%v", a, b, a, route.Get(a) != nil, b, route.Get(b) != nil)
			}
		}
	}
	outs = append(outs, ro)
	// ---- users
	configureUserFile(t, dir+"/users.json")
	auth.Reset(auth.JSON)
	uo := outcome{Table: "users", Rounds: rounds}
	for k := 0; k < rounds; k++ {
		a, b := fmt.Sprintf("ua%d", k), fmt.Sprintf("ub%d", k)
		auth.Save(&auth.User{Name: a, Password: "p"}, true)
		release = make(chan struct{})
		atomic.StoreInt32(&armed, 1)
		var wg sync.WaitGroup
		wg.Add(1)
		go func() { defer wg.Done(); auth.Flush() }()
		select {
		case <-parked:
		case <-time.After(2 * time.Second):
			t.Fatal("flush did not reach json.write")
		}
		wg.Add(1)
		go func() { defer wg.Done(); auth.Save(&auth.User{Name: b, Password: "p"}, true) }()
		time.Sleep(5 * time.Millisecond)
		close(release)
		wg.Wait()
		auth.Flush()
		auth.Reset(auth.JSON)
		if auth.Get(a) == nil || auth.Get(b) == nil {
			uo.Lost++
			if uo.Sample == "" {
				uo.Sample = fmt.Sprintf("after save(%s); flush || save(%s); flush; restart: %s present=%v, %s present=%v", a, b, a, auth.Get(a) != nil, b, auth.Get(b) != nil)
			}
		}
	}
	outs = append(outs, uo)
	vio.WriteJSON(t, "VERIF_OUT", map[string]interface{}{"outcomes": outs})
}
