// Package vio holds the small I/O helpers shared by all drivers: reading
// TLC-generated behaviour files (one JSON value per line) and writing result files.
package vio

import (
	"bufio"
	"encoding/json"
	"os"
	"strconv"
	"testing"
)

// Lines decodes every line of the ndjson file named by env var `key` into fn.
func Lines(t testing.TB, key string, fn func(raw json.RawMessage)) int {
	path := os.Getenv(key)
	if path == "" {
		t.Skipf("%s not set (driver is run by bin/check)", key)
	}
	f, err := os.Open(path)
	if err != nil {
		t.Fatalf("open %s: %v", path, err)
	}
	defer f.Close()
	sc := bufio.NewScanner(f)
	sc.Buffer(make([]byte, 1<<20), 1<<28)
	n := 0
	for sc.Scan() {
		if len(sc.Bytes()) == 0 {
			continue
		}
		b := append([]byte(nil), sc.Bytes()...)
		fn(json.RawMessage(b))
		n++
	}
	return n
}

// WriteJSON writes v to the file named by env var `key`.
func WriteJSON(t testing.TB, key string, v interface{}) {
	path := os.Getenv(key)
	if path == "" {
		t.Fatalf("%s not set", key)
	}
	b, err := json.MarshalIndent(v, "", " ")
	if err != nil {
		t.Fatal(err)
	}
	if err := os.WriteFile(path, b, 0o644); err != nil {
		t.Fatal(err)
	}
}

// Seed returns VERIF_SEED (default 1).
func Seed() int64 {
	n, err := strconv.ParseInt(os.Getenv("VERIF_SEED"), 10, 64)
	if err != nil {
		return 1
	}
	return n
}

// Thorough reports VERIF_TIER=thorough.
func Thorough() bool { return os.Getenv("VERIF_TIER") == "thorough" }

// NDJSON is an append-only ndjson writer.
type NDJSON struct {
	f *os.File
	w *bufio.Writer
	N int
}

// Create opens path for writing.
func Create(t testing.TB, path string) *NDJSON {
	f, err := os.Create(path)
	if err != nil {
		t.Fatal(err)
	}
	return &NDJSON{f: f, w: bufio.NewWriterSize(f, 1<<20)}
}

// Put appends one value.
func (n *NDJSON) Put(v interface{}) {
	b, err := json.Marshal(v)
	if err != nil {
		panic(err)
	}
	n.w.Write(b)
	n.w.WriteByte('\n')
	n.N++
}

// Close flushes and closes.
func (n *NDJSON) Close() { n.w.Flush(); n.f.Close() }
