//go:build verif

// Package c13: a playing RTSP session (TCP interleaved, and RTSP over WebSocket) receives media while the
// client keeps sending requests; the media writer is parked by the verif hook frame.prefix exactly between the
// 4-byte interleaved prefix and the payload, the request is sent in that window, and everything the client reads
// is parsed strictly and written as a trace that TLC validates (WireTrace.tla).
package c13

import (
	"bytes"
	"fmt"
	"os"
	"runtime"
	"strconv"
	"strings"
	"sync"
	"sync/atomic"
	"testing"
	"time"

	"github.com/cnotch/ipchub/av/format/rtp"
	"github.com/cnotch/ipchub/media"
	"github.com/cnotch/ipchub/utils/vhook"
	"verifharness/vclient"
	"verifharness/vio"
	"verifharness/vsrv"
)

const sdpAV = `v=0
o=- 0 0 IN IP4 127.0.0.1
s=No Name
c=IN IP4 127.0.0.1
t=0 0
m=video 0 RTP/AVP 96
a=rtpmap:96 H264/90000
a=fmtp:96 packetization-mode=1; sprop-parameter-sets=Z2QAH6zZQFAFuhAAAAMAEAAAAwPI8YMZYA==,aO+8sA==; profile-level-id=64001F
a=control:streamid=0
m=audio 0 RTP/AVP 97
a=rtpmap:97 MPEG4-GENERIC/44100/2
a=fmtp:97 profile-level-id=1;mode=AAC-hbr;sizelength=13;indexlength=3;indexdeltalength=3; config=121056E500
a=control:streamid=1
`

func rtpPacket(seq uint16) *rtp.Packet {
	hdr := make([]byte, 12)
	hdr[0], hdr[1] = 0x80, 96
	hdr[2], hdr[3] = byte(seq>>8), byte(seq)
	payload := append([]byte{0x41, 0x9a, 0x02}, []byte(strings.Repeat("RTSP/1.0 200 OK\r\n$", int(seq%5)+1))...) // payload that looks like protocol text
	p := &rtp.Packet{Channel: rtp.ChannelVideo, Data: append(hdr, payload...)}
	p.Header.Unmarshal(p.Data)
	return p
}

// responseWriterBlocked: is the request-handling goroutine parked on the write lock?
func responseWriterBlocked() bool {
	buf := make([]byte, 256<<10)
	n := runtime.Stack(buf, true)
	for _, g := range strings.Split(string(buf[:n]), "\n\n") {
		if strings.Contains(g, "(*Session).response") && (strings.Contains(g, "[sync.Mutex.Lock") || strings.Contains(g, "[semacquire")) {
			return true
		}
	}
	return false
}

// wsPlayer: one more RTSP-over-WebSocket player of the stream; its messages are read and dropped
func wsPlayer(t *testing.T, addr, base string) func() {
	w, err := vclient.DialWS(addr, "/streams/tear", "rtsp")
	if err != nil || w.Status != 101 {
		return nil
	}
	reqs := []string{"OPTIONS " + base, "DESCRIBE " + base, "SETUP " + base + "/streamid=0", "PLAY " + base}
	for i, r := range reqs {
		extra := ""
		if i == 1 {
			extra = "Accept: application/sdp\r\n"
		}
		if i == 2 {
			extra = "Transport: RTP/AVP/TCP;unicast;interleaved=0-1\r\n"
		}
		w.WriteMessage(2, []byte(fmt.Sprintf("%s RTSP/1.0\r\nCSeq: %d\r\n%s\r\n", r, i+1, extra)))
		for { // wait for the response
			op, p, err := w.ReadMessage(5 * time.Second)
			if err != nil || op == 8 {
				w.Close()
				return nil
			}
			if it := vclient.ParseRTSPMessage(p); it.Kind == "response" {
				break
			}
		}
	}
	go func() {
		for {
			if op, _, err := w.ReadMessage(5 * time.Second); err != nil || op == 8 {
				return
			}
		}
	}()
	return w.Close
}

func TestTear(t *testing.T) {
	srv, err := vsrv.Start(false, false)
	if err != nil {
		t.Fatal(err)
	}
	live := media.NewStream("/tear", sdpAV)
	media.Regist(live)
	var stop int32
	defer atomic.StoreInt32(&stop, 1)
	go func() {
		var seq uint16
		for atomic.LoadInt32(&stop) == 0 {
			seq++
			live.WriteRtpPacket(rtpPacket(seq))
			if seq%3 == 0 { // the stream has an audio track that the players below do not set up
				a := rtpPacket(seq)
				a.Channel = rtp.ChannelAudio
				live.WriteRtpPacket(a)
			}
			time.Sleep(500 * time.Microsecond)
		}
	}()
	out := vio.Create(t, os.Getenv("VERIF_OUT"))
	defer out.Close()
	overlaps := 40
	if vio.Thorough() {
		overlaps = 400
	}
	// gate
	var armed int32
	parked := make(chan struct{}, 1)
	release := make(chan struct{})
	var gmu sync.Mutex
	var gatePoint atomic.Value // which hook point the next armed gate closes at
	gatePoint.Store("frame.prefix")
	var changedWhileParked int32
	vhook.SetHandler(func(p string, x interface{}) {
		if p != gatePoint.Load().(string) {
			return
		}
		if p == "ws.write" { // only a response about to be written is parked here
			b, _ := x.([]byte)
			if !bytes.HasPrefix(b, []byte("RTSP/1.0")) || !atomic.CompareAndSwapInt32(&armed, 1, 0) {
				return
			}
			snap := append([]byte(nil), b...)
			defer func() {
				if !bytes.Equal(snap, b) {
					atomic.AddInt32(&changedWhileParked, 1)
				}
			}()
		} else if !atomic.CompareAndSwapInt32(&armed, 1, 0) {
			return
		}
		gmu.Lock()
		rel := release
		gmu.Unlock()
		parked <- struct{}{}
		select {
		case <-rel:
		case <-time.After(5 * time.Second):
		}
	})
	defer vhook.SetHandler(nil)
	base := "rtsp://" + srv.Addr + "/tear"
	tid := 0
	gatedTotal := 0
	pooled := 0
	for _, transport := range []string{"tcp", "ws"} {
		for round := 0; round < 2; round++ {
			tid++
			var send func(method, url string, hdr map[string]string) int
			var readItem func(d time.Duration) vclient.Item
			var closeFn func()
			if transport == "tcp" {
				c, err := vclient.DialRTSP(srv.Addr)
				if err != nil {
					t.Fatal(err)
				}
				send = func(m, u string, h map[string]string) int { n, _ := c.Send(m, u, h, ""); return n }
				readItem = c.Read
				closeFn = c.Close
			} else {
				w, err := vclient.DialWS(srv.Addr, "/streams/tear", "rtsp")
				if err != nil || w.Status != 101 {
					t.Fatalf("ws handshake: %v status %v", err, w)
				}
				cseq := 0
				send = func(m, u string, h map[string]string) int {
					cseq++
					var b strings.Builder
					fmt.Fprintf(&b, "%s %s RTSP/1.0\r\nCSeq: %d\r\n", m, u, cseq)
					for k, v := range h {
						fmt.Fprintf(&b, "%s: %s\r\n", k, v)
					}
					b.WriteString("\r\n")
					w.WriteMessage(2, []byte(b.String()))
					return cseq
				}
				readItem = func(d time.Duration) vclient.Item {
					op, p, err := w.ReadMessage(d)
					if err != nil || op == 8 {
						return vclient.Item{Kind: "eof"}
					}
					return vclient.ParseRTSPMessage(p)
				}
				closeFn = w.Close
			}
			// reader goroutine: everything the client reads, in order
			items := make(chan vclient.Item, 1<<16)
			go func() {
				for {
					it := readItem(10 * time.Second)
					items <- it
					if it.Kind == "eof" || it.Kind == "timeout" || it.Kind == "torn" {
						return
					}
				}
			}()
			var cseqs []int
			var recorded []vclient.Item
			waitResp := func(cseq int) bool {
				deadline := time.After(10 * time.Second)
				for {
					select {
					case it := <-items:
						recorded = append(recorded, it)
						if it.Kind == "response" && it.Header["cseq"] == strconv.Itoa(cseq) {
							return true
						}
						if it.Kind != "response" && it.Kind != "frame" {
							return false
						}
					case <-deadline:
						return false
					}
				}
			}
			do := func(m, u string, h map[string]string) bool {
				n := send(m, u, h)
				cseqs = append(cseqs, n)
				return waitResp(n)
			}
			ok := do("OPTIONS", base, nil) && do("DESCRIBE", base, map[string]string{"Accept": "application/sdp"}) &&
				do("SETUP", base+"/streamid=0", map[string]string{"Transport": "RTP/AVP/TCP;unicast;interleaved=0-1"}) &&
				do("PLAY", base, nil)
			if !ok {
				t.Fatalf("%s: could not reach the playing state: %v", transport, recorded)
			}
			gated := 0
			for k := 0; k < overlaps/2; k++ {
				gmu.Lock()
				release = make(chan struct{})
				rel := release
				gmu.Unlock()
				atomic.StoreInt32(&armed, 1)
				select {
				case <-parked: // the media writer sits between prefix and payload
					gated++
				case <-time.After(3 * time.Second):
					atomic.StoreInt32(&armed, 0)
					close(rel)
					continue
				}
				m := "OPTIONS"
				if k%2 == 1 {
					m = "PLAY" // repeated PLAY during delivery
				}
				n := send(m, base, nil)
				cseqs = append(cseqs, n)
				// keep the gate shut until the request handler is parked on the write lock (correct code), or for
				// 40 ms (code that does not take the lock answers at once, inside the half-written frame)
				for i := 0; i < 80 && !responseWriterBlocked(); i++ {
					time.Sleep(500 * time.Microsecond)
				}
				close(rel)
				if !waitResp(n) {
					break
				}
			}
			// second window (TCP): a flush of the connection's write buffer is parked after the bytes went out and
			// before the buffer is reset, while media keeps coming; whoever flushes must still own the connection
			if transport == "tcp" {
				for k := 0; k < overlaps/4; k++ {
					gmu.Lock()
					release = make(chan struct{})
					rel := release
					gmu.Unlock()
					gatePoint.Store("flush.written")
					atomic.StoreInt32(&armed, 1)
					n := send("OPTIONS", base, nil) // a response is written and flushed
					cseqs = append(cseqs, n)
					select {
					case <-parked:
						gated++
						time.Sleep(3 * time.Millisecond) // several media packets are published meanwhile
					case <-time.After(2 * time.Second):
						atomic.StoreInt32(&armed, 0)
					}
					close(rel)
					gatePoint.Store("frame.prefix")
					if !waitResp(n) {
						break
					}
				}
			}
			// third window (WebSocket): the response is parked at the entry of the WebSocket write - encoded, on its way
			// out - while the media writers of this and of two more WebSocket players keep taking buffers from the
			// shared pool; the message that goes out must still be the response (PooledWrite.tla: Exclusive)
			if transport == "ws" {
				var closers []func()
				for i := 0; i < 2; i++ {
					if cl := wsPlayer(t, srv.Addr, base); cl != nil {
						closers = append(closers, cl)
					}
				}
				prev := runtime.GOMAXPROCS(4) // few Ps: a buffer given back on one of them is soon taken again
				for k := 0; k < overlaps/4; k++ {
					gmu.Lock()
					release = make(chan struct{})
					rel := release
					gmu.Unlock()
					gatePoint.Store("ws.write")
					atomic.StoreInt32(&armed, 1)
					n := send("OPTIONS", base, nil)
					cseqs = append(cseqs, n)
					select {
					case <-parked:
						gated++
						pooled++
						time.Sleep(4 * time.Millisecond)
					case <-time.After(2 * time.Second):
						atomic.StoreInt32(&armed, 0)
					}
					close(rel)
					gatePoint.Store("frame.prefix")
					if !waitResp(n) {
						break
					}
				}
				runtime.GOMAXPROCS(prev)
				for _, cl := range closers {
					cl()
				}
			}
			gatedTotal += gated
			send("TEARDOWN", base, nil)
			closeFn()
			for drained := false; !drained; {
				select {
				case it := <-items:
					recorded = append(recorded, it)
					drained = it.Kind == "eof" || it.Kind == "timeout" || it.Kind == "torn"
				case <-time.After(3 * time.Second):
					drained = true
				}
			}
			out.Put(map[string]interface{}{"t": tid, "e": "begin", "transport": transport, "cseqs": cseqs, "gated": gated})
			for _, it := range recorded {
				switch it.Kind {
				case "frame":
					out.Put(map[string]interface{}{"t": tid, "e": "item", "kind": "frame", "cseq": 0})
				case "response":
					n, _ := strconv.Atoi(it.Header["cseq"])
					out.Put(map[string]interface{}{"t": tid, "e": "item", "kind": "response", "cseq": n})
				case "torn":
					raw := it.Raw
					if len(raw) > 60 {
						raw = raw[:60]
					}
					out.Put(map[string]interface{}{"t": tid, "e": "item", "kind": "torn", "cseq": 0, "raw": fmt.Sprintf("%q", raw)})
				}
			}
			out.Put(map[string]interface{}{"t": tid, "e": "end", "cseqs": cseqs[:len(cseqs)-0]})
		}
	}
	vio.WriteJSON(t, "VERIF_OUT2", map[string]interface{}{"executions": tid, "gated_overlaps": gatedTotal, "parked_at_ws_write": pooled,
		"changed_while_parked": atomic.LoadInt32(&changedWhileParked)})
}
