//go:build verif

package c09

import (
	"encoding/json"
	"fmt"
	"io"
	"math/rand"
	"os"
	"strconv"
	"strings"
	"testing"

	"github.com/cnotch/ipchub/av/codec"
	"github.com/cnotch/ipchub/av/format/hls"
	"github.com/cnotch/ipchub/av/format/mpegts"
	"github.com/cnotch/ipchub/av/format/sdp"
	"github.com/cnotch/xlog"
	"verifharness/tsdemux"
	"verifharness/vio"
)

// TestTsHls: "the transport stream written for HLS" as a player gets it - the packetisers feed the HLS segment
// generator, which batches the audio frames of about 100 ms into one PES; every completed segment is read back and
// demultiplexed independently.  Audio frames have sizes from the case list (variable bit rate), video is 25 frames
// per second with a key frame every 12.  In every second run the stream's parameter sets are not in the SDP: the
// video metadata is empty when the packetiser is built and filled in afterwards, as the RTP demuxer does when SPS
// and PPS arrive in band.
func TestTsHls(t *testing.T) {
	var sizes []int
	vio.Lines(t, "VERIF_IN", func(raw json.RawMessage) {
		var fs []frameCase
		if err := json.Unmarshal(raw, &fs); err != nil {
			t.Fatal(err)
		}
		for _, f := range fs {
			if f.Size >= 2 && f.Size <= 1400 {
				sizes = append(sizes, f.Size)
			}
		}
	})
	if len(sizes) < 100 {
		t.Fatalf("only %d usable sizes", len(sizes))
	}
	out := vio.Create(t, os.Getenv("VERIF_OUT"))
	defer out.Close()
	rng := rand.New(rand.NewSource(vio.Seed()))
	runs := 8
	if vio.Thorough() {
		runs = 40
	}
	fill := func(n int, lead byte) []byte {
		b := make([]byte, n)
		rng.Read(b)
		for i := range b {
			if b[i] < 4 {
				b[i] = 0x55
			}
		}
		b[0] = lead
		return b
	}
	segs, units := 0, 0
	for run := 1; run <= runs; run++ {
		var video codec.VideoMeta
		var audio codec.AudioMeta
		if err := sdp.ParseMetadata(sdpAV, &video, &audio); err != nil {
			t.Fatal(err)
		}
		sps, pps := video.Sps, video.Pps
		inband := run%2 == 0
		if inband {
			video.Sps, video.Pps = nil, nil
		}
		pl := hls.NewPlaylist()
		sg, err := hls.NewSegmentGenerator(pl, fmt.Sprintf("/c09/hls%d", run), 1, "", audio.SampleRate, xlog.L())
		if err != nil {
			t.Fatal(err)
		}
		base := []int64{0, 1<<33 - 2*90000, 9223372036 - 90000}[run%3]
		base -= base % 9
		sg.VerifStartAt(base)
		vp := mpegts.NewH264Packetizer(&video, sg)
		ap := mpegts.NewAacPacketizer(&audio, sg)
		if inband { // the parameter sets arrive after the packetiser exists
			video.Sps, video.Pps = sps, pps
		}
		var vsrc, asrc [][]byte
		var vkey []bool
		var gotV, gotA [][]byte
		var gotKey, gotPrefix []bool
		var bad []string
		seen := 0
		collect := func() {
			raw, err := pl.M3u8("")
			if err != nil {
				return
			}
			for _, s := range parseSeqs(raw) {
				if s <= seen {
					continue
				}
				seen = s
				rd, _, err := pl.Segment(s)
				if err != nil {
					bad = append(bad, fmt.Sprintf("segment %d listed but not readable: %v", s, err))
					continue
				}
				data, _ := io.ReadAll(rd)
				if c, ok := rd.(io.Closer); ok {
					c.Close()
				}
				r := tsdemux.Parse(data, sps, pps)
				segs++
				for _, b := range r.Bad {
					bad = append(bad, fmt.Sprintf("segment %d: %s", s, b))
				}
				for _, u := range r.Video {
					gotV = append(gotV, u.Body)
					gotKey = append(gotKey, u.Key)
					gotPrefix = append(gotPrefix, u.Prefix)
				}
				for _, u := range r.Audio {
					gotA = append(gotA, u.Body)
				}
			}
		}
		// 6 seconds of stream: video every 40 ms, audio every 1024 samples
		nextA := int64(0)
		for i := 0; i < 150; i++ {
			tv := int64(i) * 3600
			for ; nextA <= tv; nextA += 1024 * 90000 / int64(audio.SampleRate) {
				p := fill(sizes[rng.Intn(len(sizes))], 0x21)
				asrc = append(asrc, p)
				ns := (base + nextA - (base+nextA)%9) * 100000 / 9
				ap.Packetize(&codec.Frame{MediaType: codec.MediaTypeAudio, Dts: ns, Pts: ns, Payload: p})
			}
			key := i%12 == 0
			lead := byte(0x41)
			if key {
				lead = 0x65
			}
			p := fill(sizes[rng.Intn(len(sizes))]+8, lead)
			vsrc = append(vsrc, p)
			vkey = append(vkey, key)
			ns := (base + tv) * 100000 / 9
			vp.Packetize(&codec.Frame{MediaType: codec.MediaTypeVideo, Dts: ns, Pts: ns, Payload: p})
			collect()
		}
		sg.Close()
		// what came out is a prefix of what went in: same units, same order, whole
		vok, aok, kok, pok := len(gotV) <= len(vsrc), len(gotA) <= len(asrc), true, true
		for i := 0; vok && i < len(gotV); i++ {
			vok = string(gotV[i]) == string(vsrc[i])
			kok = kok && gotKey[i] == vkey[i]
			pok = pok && gotPrefix[i]
		}
		for i := 0; aok && i < len(gotA); i++ {
			aok = string(gotA[i]) == string(asrc[i])
		}
		units += len(gotV) + len(gotA)
		if bad == nil {
			bad = []string{}
		}
		if len(bad) > 6 {
			bad = bad[:6]
		}
		out.Put(map[string]interface{}{"t": run, "e": "hls", "inband": inband, "segments": seen, "video_units": len(gotV), "audio_frames": len(gotA),
			"bad": bad, "video_equal": vok, "audio_equal": aok, "key_flags": kok, "prefixes": pok})
	}
	vio.WriteJSON(t, "VERIF_OUT2", map[string]interface{}{"runs": runs, "segments": segs, "units": units})
}

// parseSeqs: sequence numbers of the segments a playlist lists (taken from the URIs .../<n>.ts)
func parseSeqs(m3u8 []byte) []int {
	var out []int
	for _, l := range strings.Split(string(m3u8), "\n") {
		l = strings.TrimSpace(l)
		if l == "" || l[0] == '#' {
			continue
		}
		if i := strings.Index(l, "?"); i >= 0 {
			l = l[:i]
		}
		l = strings.TrimSuffix(l, ".ts")
		if i := strings.LastIndex(l, "/"); i >= 0 {
			if n, err := strconv.Atoi(l[i+1:]); err == nil {
				out = append(out, n)
			}
		}
	}
	return out
}
