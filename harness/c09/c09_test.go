//go:build verif

// Package c09: feeds the frame cases enumerated by TLC (spec/tsout/TsCases.tla) through the real mpegts.Muxer and
// mpegts.Writer, demultiplexes the output with the independent TS / PES / ADTS / Annex-B parser below, and writes
// what it saw as a trace that TLC validates against the acceptor TsOut.tla.
package c09

import (
	"bytes"
	"encoding/base64"
	"encoding/binary"
	"encoding/json"
	"fmt"
	"math/rand"
	"os"
	"sync"
	"testing"
	"time"

	"github.com/cnotch/ipchub/av/codec"
	"github.com/cnotch/ipchub/av/format/mpegts"
	"github.com/cnotch/ipchub/av/format/sdp"
	"github.com/cnotch/xlog"
	"verifharness/vio"
)

const sdpAV = `v=0
o=- 0 0 IN IP4 127.0.0.1
s=x
c=IN IP4 127.0.0.1
t=0 0
m=video 0 RTP/AVP 96
a=rtpmap:96 H264/90000
a=fmtp:96 packetization-mode=1; sprop-parameter-sets=Z2QAH6zZQFAFuhAAAAMAEAAAAwPI8YMZYA==,aO+8sA==; profile-level-id=64001F
a=control:streamid=0
m=audio 0 RTP/AVP 97
a=rtpmap:97 MPEG4-GENERIC/44100/2
a=fmtp:97 profile-level-id=1;mode=AAC-hbr;sizelength=13;indexlength=3;indexdeltalength=3; config=121056E500
a=control:streamid=1
`

var spsB, _ = base64.StdEncoding.DecodeString("Z2QAH6zZQFAFuhAAAAMAEAAAAwPI8YMZYA==")
var ppsB, _ = base64.StdEncoding.DecodeString("aO+8sA==")

type frameCase struct {
	Kind   string `json:"kind"`
	Size   int    `json:"size"`
	Time   string `json:"time"`
	PtsDts bool   `json:"ptsdts"`
}

type lockedBuf struct {
	mu sync.Mutex
	b  bytes.Buffer
}

func (l *lockedBuf) Write(p []byte) (int, error) {
	l.mu.Lock()
	defer l.mu.Unlock()
	return l.b.Write(p)
}
func (l *lockedBuf) Bytes() []byte {
	l.mu.Lock()
	defer l.mu.Unlock()
	return append([]byte(nil), l.b.Bytes()...)
}

// CRC-32/MPEG-2
func crc32mpeg(b []byte) uint32 {
	crc := uint32(0xffffffff)
	for _, x := range b {
		crc ^= uint32(x) << 24
		for i := 0; i < 8; i++ {
			if crc&0x80000000 != 0 {
				crc = crc<<1 ^ 0x04c11db7
			} else {
				crc <<= 1
			}
		}
	}
	return crc
}

func ts33(b []byte) (int64, bool) { // 5 bytes PTS/DTS field -> value, marker bits ok
	ok := b[0]&1 == 1 && b[2]&1 == 1 && b[4]&1 == 1
	v := int64(b[0]>>1&7)<<30 | int64(b[1])<<22 | int64(b[2]>>1)<<15 | int64(b[3])<<7 | int64(b[4]>>1)
	return v, ok
}

type src struct {
	c        frameCase
	payload  []byte
	pts, dts int64 // 90 kHz
}

func splitAnnexB(b []byte) [][]byte { // NAL units between 00 00 01 / 00 00 00 01 start codes
	var nals [][]byte
	i, start := 0, -1
	for i+3 <= len(b) {
		if b[i] == 0 && b[i+1] == 0 && b[i+2] == 1 {
			if start >= 0 {
				end := i
				if end > start && b[end-1] == 0 { // the zero belongs to a 4-byte start code
					end--
				}
				nals = append(nals, b[start:end])
			}
			start = i + 3
			i += 3
			continue
		}
		i++
	}
	if start >= 0 {
		nals = append(nals, b[start:])
	}
	return nals
}

func TestTs(t *testing.T) {
	var cases []frameCase
	vio.Lines(t, "VERIF_IN", func(raw json.RawMessage) {
		var fs []frameCase
		if err := json.Unmarshal(raw, &fs); err != nil {
			t.Fatal(err)
		}
		cases = append(cases, fs...)
	})
	rng := rand.New(rand.NewSource(vio.Seed()))
	rng.Shuffle(len(cases), func(i, j int) { cases[i], cases[j] = cases[j], cases[i] })
	out := vio.Create(t, os.Getenv("VERIF_OUT"))
	defer out.Close()
	var video codec.VideoMeta
	var audio codec.AudioMeta
	if err := sdp.ParseMetadata(sdpAV, &video, &audio); err != nil {
		t.Fatal(err)
	}
	batch := 150
	tid, total := 0, 0
	for off := 0; off < len(cases); off += batch {
		end := off + batch
		if end > len(cases) {
			end = len(cases)
		}
		tid++
		lb := &lockedBuf{}
		w, err := mpegts.NewWriter(lb)
		if err != nil {
			t.Fatal(err)
		}
		mx, err := mpegts.NewMuxer(&video, &audio, w, xlog.L())
		if err != nil {
			t.Fatal(err)
		}
		var srcs []src
		for _, c := range cases[off:end] {
			var p []byte
			body := make([]byte, c.Size)
			rng.Read(body)
			for i := range body { // no start codes / emulation inside the payload: keep bytes non-zero
				if body[i] < 4 {
					body[i] = 0x55
				}
			}
			switch c.Kind {
			case "key":
				p = append([]byte{0x65}, body...)
			case "non":
				p = append([]byte{0x41}, body...)
			default:
				p = append([]byte{0x21}, body...)
			}
			p = p[:c.Size] // the NAL header byte counts towards the size
			base := int64(0)
			switch c.Time {
			case "small":
				base = 900
			case "max33":
				base = 8589934584 - 900 // largest multiples of 9 below 2^33
			}
			s := src{c: c, payload: p, pts: base, dts: base}
			if !c.PtsDts && c.Kind != "aud" {
				s.pts = base + 900 // PTS ahead of DTS
			}
			srcs = append(srcs, s)
			mt := codec.MediaTypeVideo
			if c.Kind == "aud" {
				mt = codec.MediaTypeAudio
			}
			mx.WriteFrame(&codec.Frame{MediaType: mt, Dts: s.dts * 100000 / 9, Pts: s.pts * 100000 / 9, Payload: p})
		}
		// sentinel frame, then wait until its bytes are out
		sent := bytes.Repeat([]byte{0x41, 0xEE, 0xDD, 0xCC}, 4)
		mx.WriteFrame(&codec.Frame{MediaType: codec.MediaTypeVideo, Payload: sent})
		deadline := time.Now().Add(30 * time.Second)
		for !bytes.Contains(lb.Bytes(), sent[:12]) {
			if time.Now().After(deadline) {
				t.Fatalf("muxer stalled in batch %d", tid)
			}
			time.Sleep(200 * time.Microsecond)
		}
		time.Sleep(2 * time.Millisecond)
		mx.Close()
		data := lb.Bytes()
		out.Put(map[string]interface{}{"t": tid, "e": "begin"})
		// ---- independent demultiplexer ----
		type pesAcc struct {
			data      []byte
			rai, pcrf bool
			pcr       int64
			started   bool
		}
		acc := map[int]*pesAcc{}
		var order []int // pid order of completed PES
		var done []*pesAcc
		flush := func(pid int) {
			if a := acc[pid]; a != nil && a.started {
				done = append(done, a)
				order = append(order, pid)
			}
			delete(acc, pid)
		}
		for o := 0; o < len(data); o += 188 {
			size := 188
			if o+188 > len(data) {
				size = len(data) - o
			}
			pk := data[o : o+size]
			ev := map[string]interface{}{"t": tid, "e": "pkt", "size": size, "sync": int(pk[0]), "pid": 0, "pusi": false, "cc": 0, "af": false,
				"aflen": 0, "rai": false, "pcrf": false, "pcr": "0", "paylen": 0}
			if size < 188 {
				out.Put(ev)
				break
			}
			pid := int(pk[1]&0x1f)<<8 | int(pk[2])
			pusi := pk[1]&0x40 != 0
			afc := pk[3] >> 4 & 3
			ev["pid"], ev["pusi"], ev["cc"] = pid, pusi, int(pk[3]&0x0f)
			p := 4
			var rai, pcrf bool
			var pcr int64
			if afc&2 != 0 {
				afl := int(pk[4])
				ev["af"], ev["aflen"] = true, afl
				if afl > 0 && 5+afl <= 188 {
					fl := pk[5]
					rai, pcrf = fl&0x40 != 0, fl&0x10 != 0
					if pcrf && afl >= 7 {
						pcr = int64(pk[6])<<25 | int64(pk[7])<<17 | int64(pk[8])<<9 | int64(pk[9])<<1 | int64(pk[10]>>7)
					}
				}
				p = 5 + afl
			}
			ev["rai"], ev["pcrf"], ev["pcr"] = rai, pcrf, fmt.Sprint(pcr)
			if p > 188 {
				p = 188
			}
			payload := pk[p:]
			if afc&1 == 0 {
				payload = nil
			}
			ev["paylen"] = len(payload)
			out.Put(ev)
			switch pid {
			case 0, 4097:
				what := "pat"
				if pid == 4097 {
					what = "pmt"
				}
				ok := false
				if len(payload) > 4 {
					sec := payload[1+int(payload[0]):]
					if len(sec) >= 3 {
						sl := int(sec[1]&0x0f)<<8 | int(sec[2])
						if 3+sl <= len(sec) && sl >= 9 {
							body := sec[:3+sl]
							ok = crc32mpeg(body) == 0
							if what == "pat" {
								ok = ok && sec[0] == 0 && int(body[10]&0x1f)<<8|int(body[11]) == 4097
							} else {
								// stream_type 0x1b on pid 256 and 0x0f on pid 257
								es := body[12 : len(body)-4]
								found := map[int]int{}
								for len(es) >= 5 {
									found[int(es[0])] = int(es[1]&0x1f)<<8 | int(es[2])
									es = es[5+(int(es[3]&0x0f)<<8|int(es[4])):]
								}
								ok = ok && sec[0] == 2 && found[0x1b] == 256 && found[0x0f] == 257
							}
						}
					}
				}
				out.Put(map[string]interface{}{"t": tid, "e": "psi", "what": what, "ok": ok})
			default:
				if pusi {
					flush(pid)
					acc[pid] = &pesAcc{started: true, rai: rai, pcrf: pcrf, pcr: pcr}
				}
				if a := acc[pid]; a != nil {
					a.data = append(a.data, payload...)
				}
			}
		}
		flush(256)
		flush(257)
		// match the PES packets with the source frames: per pid in order
		vi, ai := 0, 0
		var vsrc, asrc []src
		for _, s := range srcs {
			if s.c.Kind == "aud" {
				asrc = append(asrc, s)
			} else {
				vsrc = append(vsrc, s)
			}
		}
		npes := 0
		for k, a := range done {
			pid := order[k]
			d := a.data
			ev := map[string]interface{}{"t": tid, "e": "pes", "pid": pid, "sid": 0, "peslen": 0, "total": len(d), "pts": "-1", "dts": "-1", "hasdts": false,
				"wantpts": "0", "wantdts": "0", "key": false, "intact": false, "prefix": false, "rai": a.rai, "pcrf": a.pcrf, "pcr": fmt.Sprint(a.pcr), "pcr_ok": true}
			if len(d) >= 9 && d[0] == 0 && d[1] == 0 && d[2] == 1 {
				ev["sid"] = int(d[3])
				ev["peslen"] = int(binary.BigEndian.Uint16(d[4:]))
				flags, hl := d[7], int(d[8])
				body := d[9:]
				if hl <= len(body) {
					hd := body[:hl]
					es := body[hl:]
					markers := true
					if flags&0x80 != 0 && len(hd) >= 5 {
						v, ok := ts33(hd)
						ev["pts"] = fmt.Sprint(v)
						markers = markers && ok
					}
					if flags&0x40 != 0 && len(hd) >= 10 {
						v, ok := ts33(hd[5:])
						ev["dts"], ev["hasdts"] = fmt.Sprint(v), true
						markers = markers && ok
					}
					var s *src
					if pid == 256 && vi < len(vsrc) {
						s = &vsrc[vi]
						vi++
					} else if pid == 257 && ai < len(asrc) {
						s = &asrc[ai]
						ai++
					}
					if s == nil { // the sentinel
						if bytes.Contains(es, sent[:12]) {
							continue
						}
					} else {
						npes++
						ev["wantpts"], ev["wantdts"], ev["key"] = fmt.Sprint(s.pts), fmt.Sprint(s.dts), s.c.Kind == "key"
						ev["pcr_ok"] = s.c.Kind != "key" || a.pcr == s.dts // the PCR of a key frame's first packet is its decode time
						if pid == 256 {
							nals := splitAnnexB(es)
							want := [][]byte{{0x09, 0xf0}}
							if s.c.Kind == "key" {
								want = append(want, spsB, ppsB)
							}
							want = append(want, s.payload)
							okp := len(nals) == len(want) && markers
							for i := 0; okp && i < len(want)-1; i++ {
								okp = bytes.Equal(nals[i], want[i])
							}
							ev["prefix"] = okp
							ev["intact"] = len(nals) > 0 && bytes.Equal(nals[len(nals)-1], s.payload)
						} else {
							// chained ADTS frames; exactly one here
							okp, intact := false, false
							if len(es) >= 7 && es[0] == 0xff && es[1]&0xf0 == 0xf0 {
								fl := int(es[3]&3)<<11 | int(es[4])<<3 | int(es[5]>>5)
								okp = fl == len(es) && markers && (es[2]>>2&0xf) == 4 /* 44100 */ && (es[2]&1)<<2|es[3]>>6 == 2
								intact = fl == len(es) && bytes.Equal(es[7:], s.payload)
							}
							ev["prefix"], ev["intact"] = okp, intact
						}
					}
				}
			}
			out.Put(ev)
		}
		total += npes
		out.Put(map[string]interface{}{"t": tid, "e": "end", "frames": len(srcs), "pes": npes})
	}
	vio.WriteJSON(t, "VERIF_OUT2", map[string]interface{}{"cases": len(cases), "pes": total, "batches": tid})
}
