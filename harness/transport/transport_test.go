//go:build verif

// Package transport: C01 over the real transports.  One stream of a running server is fed a numbered packet
// sequence while real clients receive it over RTSP/TCP (interleaved), RTSP/UDP, RTSP over WebSocket, WSP (control +
// data socket), HTTP-FLV and WebSocket-FLV; some attach before the first packet, some in mid stream, one leaves
// early.  What was published and what every client read goes into a trace that TLC validates against
// TransportTrace.tla (order, at most once, byte-identical, nothing missing between the first and the last).
package transport

import (
	"bytes"
	"crypto/sha1"
	"encoding/binary"
	"encoding/hex"
	"fmt"
	"github.com/cnotch/ipchub/utils/vhook"
	"io"
	"net"
	"net/http"
	"os"
	"regexp"
	"strings"
	"sync"
	"sync/atomic"
	"testing"
	"time"

	"github.com/cnotch/ipchub/av/format/rtp"
	"github.com/cnotch/ipchub/media"
	"verifharness/vclient"
	"verifharness/vio"
	"verifharness/vsrv"
)

const sdpAV = `v=0
o=- 0 0 IN IP4 127.0.0.1
s=x
c=IN IP4 127.0.0.1
t=0 0
m=video 0 RTP/AVP 96
a=rtpmap:96 H264/90000
a=fmtp:96 packetization-mode=1; sprop-parameter-sets=Z2QAH6zZQFAFuhAAAAMAEAAAAwPI8YMZYA==,aO+8sA==; profile-level-id=64001F
a=control:streamid=0
m=audio 0 RTP/AVP 97
a=rtpmap:97 MPEG4-GENERIC/44100/2
a=fmtp:97 profile-level-id=1;mode=AAC-hbr;sizelength=13;indexlength=3;indexdeltalength=3; config=121056E500
a=control:streamid=1
`

var idRe = regexp.MustCompile(`#[0-9]{6}#`)

func hashOf(b []byte) string {
	h := sha1.Sum(b)
	return hex.EncodeToString(h[:5])
}

type got struct {
	mu  sync.Mutex
	seq []map[string]interface{}
	bad int // WebSocket messages that are not exactly one complete interleaved frame (or response)
}

func (g *got) badMsg() {
	g.mu.Lock()
	g.bad++
	g.mu.Unlock()
}

func (g *got) items() []map[string]interface{} {
	if g.seq == nil {
		return []map[string]interface{}{}
	}
	return g.seq
}

func (g *got) add(kind string, data []byte) {
	m := idRe.Find(data)
	if m == nil {
		return
	}
	var n int
	fmt.Sscanf(string(m), "#%06d#", &n)
	g.mu.Lock()
	g.seq = append(g.seq, map[string]interface{}{"n": n, "kind": kind, "hash": hashOf(data)})
	g.mu.Unlock()
}
func (g *got) last() int {
	g.mu.Lock()
	defer g.mu.Unlock()
	if len(g.seq) == 0 {
		return 0
	}
	return g.seq[len(g.seq)-1]["n"].(int)
}

type client struct {
	cut   func() // WSP: cut the data socket only (the control socket stays): the server's next media write fails
	name  string
	proto string // "rtp" (whole RTP packets are compared) | "flv" (the media payload inside the tag is compared)
	g     *got
	stop  func()
}

// rtpFrom handles one interleaved frame / datagram: video and audio RTP packets are recorded, RTCP too.
func rtpFrom(g *got, channel int, data []byte) {
	g.add(fmt.Sprintf("ch%d", channel), data)
}

func playFlow(do func(m, u string, h map[string]string, body string) vclient.Item, url string, transports [2]string) (string, bool) {
	r := do("DESCRIBE", url, map[string]string{"Accept": "application/sdp"}, "")
	if r.Kind != "response" || r.Status != 200 {
		return "", false
	}
	r = do("SETUP", url+"/streamid=0", map[string]string{"Transport": transports[0]}, "")
	if r.Kind != "response" || r.Status != 200 {
		return "", false
	}
	sess := strings.Split(r.Header["session"], ";")[0]
	if transports[1] != "" { // "": the player sets up the video track only
		r = do("SETUP", url+"/streamid=1", map[string]string{"Transport": transports[1], "Session": sess}, "")
		if r.Kind != "response" || r.Status != 200 {
			return "", false
		}
	}
	r = do("PLAY", url, map[string]string{"Session": sess}, "")
	return sess, r.Kind == "response" && r.Status == 200
}

func tcpClient(t *testing.T, addr, path string) *client {
	c, err := vclient.DialRTSP(addr)
	if err != nil {
		t.Fatal(err)
	}
	g := &got{}
	do := func(m, u string, h map[string]string, body string) vclient.Item {
		r, extra, _ := c.Do(m, u, h, body, 5*time.Second)
		for _, e := range extra {
			if e.Kind == "frame" {
				rtpFrom(g, e.Channel, e.Payload)
			}
		}
		return r
	}
	if _, ok := playFlow(do, "rtsp://"+addr+path, [2]string{"RTP/AVP/TCP;unicast;interleaved=0-1", "RTP/AVP/TCP;unicast;interleaved=2-3"}); !ok {
		t.Fatal("tcp client: handshake failed")
	}
	done := make(chan struct{})
	go func() {
		for {
			it := c.Read(500 * time.Millisecond)
			select {
			case <-done:
				return
			default:
			}
			if it.Kind == "frame" {
				rtpFrom(g, it.Channel, it.Payload)
			} else if it.Kind == "eof" || it.Kind == "torn" {
				return
			}
		}
	}()
	return &client{name: "tcp", proto: "rtp", g: g, stop: func() { close(done); c.Close() }}
}

func udpClient(t *testing.T, addr, path string) *client {
	c, err := vclient.DialRTSP(addr)
	if err != nil {
		t.Fatal(err)
	}
	g := &got{}
	var socks []*net.UDPConn
	var ports []int
	for i := 0; i < 4; i++ {
		s, err := net.ListenUDP("udp", &net.UDPAddr{IP: net.IPv4(127, 0, 0, 1)})
		if err != nil {
			t.Fatal(err)
		}
		s.SetReadBuffer(4 << 20)
		socks = append(socks, s)
		ports = append(ports, s.LocalAddr().(*net.UDPAddr).Port)
	}
	do := func(m, u string, h map[string]string, body string) vclient.Item {
		r, _, _ := c.Do(m, u, h, body, 5*time.Second)
		return r
	}
	tr := [2]string{fmt.Sprintf("RTP/AVP;unicast;client_port=%d-%d", ports[0], ports[1]), fmt.Sprintf("RTP/AVP;unicast;client_port=%d-%d", ports[2], ports[3])}
	if _, ok := playFlow(do, "rtsp://"+addr+path, tr); !ok {
		t.Fatal("udp client: handshake failed")
	}
	for i, s := range socks {
		go func(i int, s *net.UDPConn) {
			buf := make([]byte, 65536)
			for {
				n, _, err := s.ReadFromUDP(buf)
				if err != nil {
					return
				}
				rtpFrom(g, i, append([]byte(nil), buf[:n]...))
			}
		}(i, s)
	}
	return &client{name: "udp", proto: "rtp-udp", g: g, stop: func() {
		for _, s := range socks {
			s.Close()
		}
		c.Close()
	}}
}

func wsrtspClient(t *testing.T, addr, path string) *client {
	return wsrtspClientT(t, addr, path, "RTP/AVP/TCP;unicast;interleaved=2-3")
}

// a player that sets up the video track only: it is owed the video channel and its control channel, nothing else
func wsrtspVideoClient(t *testing.T, addr, path string) *client {
	c := wsrtspClientT(t, addr, path, "")
	c.name, c.proto = "wsrtsp-video", "rtp-video"
	return c
}

func wsrtspClientT(t *testing.T, addr, path, audioTransport string) *client {
	ws, err := vclient.DialWS(addr, "/streams"+path, "rtsp")
	if err != nil || ws.Status != 101 {
		t.Fatal("ws-rtsp: upgrade failed")
	}
	g := &got{}
	cseq := 0
	do := func(m, u string, h map[string]string, body string) vclient.Item {
		cseq++
		var b strings.Builder
		fmt.Fprintf(&b, "%s %s RTSP/1.0\r\nCSeq: %d\r\n", m, u, cseq)
		for k, v := range h {
			fmt.Fprintf(&b, "%s: %s\r\n", k, v)
		}
		b.WriteString("\r\n" + body)
		ws.WriteMessage(2, []byte(b.String()))
		for {
			op, p, err := ws.ReadMessage(5 * time.Second)
			if err != nil || op == 8 {
				return vclient.Item{Kind: "eof"}
			}
			it := vclient.ParseRTSPMessage(p)
			if it.Kind == "response" && it.Header["cseq"] == fmt.Sprint(cseq) {
				return it
			}
			if it.Kind == "frame" {
				rtpFrom(g, it.Channel, it.Payload)
			} else if it.Kind != "response" {
				g.badMsg()
			}
		}
	}
	if _, ok := playFlow(do, "rtsp://"+addr+path, [2]string{"RTP/AVP/TCP;unicast;interleaved=0-1", audioTransport}); !ok {
		t.Fatal("ws-rtsp client: handshake failed")
	}
	go func() {
		for {
			op, p, err := ws.ReadMessage(30 * time.Second)
			if err != nil || op == 8 {
				return
			}
			if it := vclient.ParseRTSPMessage(p); it.Kind == "frame" {
				rtpFrom(g, it.Channel, it.Payload)
			} else if it.Kind != "response" {
				g.badMsg()
			}
		}
	}()
	return &client{name: "wsrtsp", proto: "rtp", g: g, stop: func() { ws.Close() }}
}

func wspClient(t *testing.T, addr, path string) *client {
	return wspClientT(t, addr, path, "RTP/AVP/TCP;unicast;interleaved=2-3")
}

func wspVideoClient(t *testing.T, addr, path string) *client {
	c := wspClientT(t, addr, path, "")
	c.name, c.proto = "wsp-video", "rtp-video"
	return c
}

func wspClientT(t *testing.T, addr, path, audioTransport string) *client {
	ctl, err := vclient.DialWS(addr, "/streams"+path, "control")
	if err != nil || ctl.Status != 101 {
		t.Fatal("wsp: control upgrade failed")
	}
	seq := 0
	call := func(s *vclient.WS, cmd string, hdr map[string]string, body string) (int, map[string]string, string) {
		seq++
		var b strings.Builder
		fmt.Fprintf(&b, "WSP/1.1 %s\r\n", cmd)
		for k, v := range hdr {
			fmt.Fprintf(&b, "%s: %s\r\n", k, v)
		}
		fmt.Fprintf(&b, "seq: %d\r\n\r\n%s", seq, body)
		s.WriteMessage(1, []byte(b.String()))
		for {
			op, p, err := s.ReadMessage(5 * time.Second)
			if err != nil || op == 8 {
				return -1, nil, ""
			}
			txt := string(p)
			i := strings.Index(txt, "\r\n\r\n")
			if i < 0 || !strings.HasPrefix(txt, "WSP/1.1 ") {
				continue
			}
			lines := strings.Split(txt[:i], "\r\n")
			code := 0
			fmt.Sscanf(lines[0], "WSP/1.1 %d", &code)
			h := map[string]string{}
			for _, l := range lines[1:] {
				if j := strings.Index(l, ":"); j > 0 {
					h[strings.ToLower(strings.TrimSpace(l[:j]))] = strings.TrimSpace(l[j+1:])
				}
			}
			if h["seq"] == fmt.Sprint(seq) {
				return code, h, txt[i+4:]
			}
		}
	}
	code, h, _ := call(ctl, "INIT", map[string]string{"proto": "rtsp", "host": "127.0.0.1", "port": "554"}, "")
	if code != 200 {
		t.Fatal("wsp: INIT failed")
	}
	data, err := vclient.DialWS(addr, "/streams"+path, "data")
	if err != nil || data.Status != 101 {
		t.Fatal("wsp: data upgrade failed")
	}
	if code, _, _ := call(data, "JOIN", map[string]string{"channel": h["channel"]}, ""); code != 200 {
		t.Fatal("wsp: JOIN failed")
	}
	g := &got{}
	cseq := 0
	do := func(m, u string, hd map[string]string, body string) vclient.Item {
		cseq++
		var b strings.Builder
		fmt.Fprintf(&b, "%s %s RTSP/1.0\r\nCSeq: %d\r\n", m, u, cseq)
		for k, v := range hd {
			fmt.Fprintf(&b, "%s: %s\r\n", k, v)
		}
		b.WriteString("\r\n" + body)
		code, _, payload := call(ctl, "WRAP", map[string]string{}, b.String())
		if code != 200 {
			return vclient.Item{Kind: "eof"}
		}
		return vclient.ParseRTSPMessage([]byte(payload))
	}
	if _, ok := playFlow(do, "rtsp://"+addr+path, [2]string{"RTP/AVP/TCP;unicast;interleaved=0-1", audioTransport}); !ok {
		t.Fatal("wsp client: handshake failed")
	}
	go func() {
		for {
			op, p, err := data.ReadMessage(30 * time.Second)
			if err != nil || op == 8 {
				return
			}
			// every message on the data channel must be exactly one complete interleaved frame
			if it := vclient.ParseRTSPMessage(p); it.Kind == "frame" {
				rtpFrom(g, it.Channel, it.Payload)
			} else {
				g.badMsg()
			}
		}
	}()
	return &client{name: "wsp", proto: "rtp", g: g, stop: func() { ctl.Close(); data.Close() }, cut: func() {
		if tc, ok := data.C.(*net.TCPConn); ok {
			tc.SetLinger(0) // reset, not an orderly close
		}
		data.Close()
	}}
}

// flvTags splits an FLV byte stream into tags and records the media payloads.
func flvTags(g *got, r io.Reader) {
	hd := make([]byte, 13)
	if _, err := io.ReadFull(r, hd); err != nil {
		return
	}
	for {
		th := make([]byte, 11)
		if _, err := io.ReadFull(r, th); err != nil {
			return
		}
		n := int(th[1])<<16 | int(th[2])<<8 | int(th[3])
		body := make([]byte, n+4)
		if _, err := io.ReadFull(r, body); err != nil {
			return
		}
		body = body[:n]
		switch th[0] & 0x1f {
		case 9:
			if len(body) > 9 && body[1] == 1 {
				g.add("video", body[9:]) // the NAL unit after frame type, packet type, composition time, length
			}
		case 8:
			if len(body) > 2 && body[1] == 1 {
				g.add("audio", body[2:])
			}
		}
	}
}

func httpflvClient(t *testing.T, addr, path string) *client {
	// the handler answers only when the first tag is there: the request runs beside the publisher
	g := &got{}
	var mu sync.Mutex
	var body io.Closer
	go func() {
		resp, err := (&http.Client{}).Get("http://" + addr + "/streams" + path + ".flv")
		if err != nil || resp.StatusCode != 200 {
			return
		}
		mu.Lock()
		body = resp.Body
		mu.Unlock()
		flvTags(g, resp.Body)
	}()
	return &client{name: "httpflv", proto: "flv", g: g, stop: func() {
		mu.Lock()
		if body != nil {
			body.Close()
		}
		mu.Unlock()
	}}
}

type wsReader struct {
	ws  *vclient.WS
	buf bytes.Buffer
}

func (w *wsReader) Read(p []byte) (int, error) {
	for w.buf.Len() == 0 {
		op, b, err := w.ws.ReadMessage(30 * time.Second)
		if err != nil || op == 8 {
			return 0, io.EOF
		}
		w.buf.Write(b)
	}
	return w.buf.Read(p)
}

func wsflvClient(t *testing.T, addr, path string) *client {
	ws, err := vclient.DialWS(addr, "/streams"+path+".flv", "")
	if err != nil || ws.Status != 101 {
		t.Fatal("ws-flv: upgrade failed")
	}
	g := &got{}
	go flvTags(g, &wsReader{ws: ws})
	return &client{name: "wsflv", proto: "flv", g: g, stop: func() { ws.Close() }}
}

func TestTransports(t *testing.T) {
	srv, err := vsrv.Start(false, false)
	if err != nil {
		t.Fatal(err)
	}
	out := vio.Create(t, os.Getenv("VERIF_OUT"))
	defer out.Close()
	rounds := 3
	if vio.Thorough() {
		rounds = 12
	}
	total := 0
	// a slow socket now and then: every 7th WebSocket message waits 300 us at the entry of the write - encoded, in its
	// pooled buffer - so that the players' delivery goroutines are not always at the same packet (PooledWrite.tla)
	var wsWrites, wsSlow int64
	vhook.SetHandler(func(p string, x interface{}) {
		if p == "ws.write" && atomic.AddInt64(&wsWrites, 1)%7 == 0 {
			atomic.AddInt64(&wsSlow, 1)
			time.Sleep(300 * time.Microsecond)
		}
	})
	defer vhook.SetHandler(nil)
	for round := 1; round <= rounds; round++ {
		path := fmt.Sprintf("/tr/s%d_%d", vio.Seed(), round)
		st := media.NewStream(path, sdpAV)
		media.Regist(st)
		out.Put(map[string]interface{}{"t": round, "e": "begin"})
		seqs := map[byte]uint16{}
		n := 0
		publish := func(ch byte, pt byte, ts uint32, payload func(id string) []byte) {
			n++
			id := fmt.Sprintf("#%06d#", n)
			seqs[ch]++
			var data []byte
			kind := ""
			if ch == rtp.ChannelVideo || ch == rtp.ChannelAudio {
				h := make([]byte, 12)
				h[0], h[1] = 0x80, 0x80|pt
				binary.BigEndian.PutUint16(h[2:], seqs[ch])
				binary.BigEndian.PutUint32(h[4:], ts)
				binary.BigEndian.PutUint32(h[8:], 0x77)
				data = append(h, payload(id)...)
				kind = "video"
				if ch == rtp.ChannelAudio {
					kind = "audio"
				}
			} else { // a receiver report: relayed on the control channel as it is
				data = append([]byte{0x80, 201, 0, 7}, []byte(id+"rtcp")...)
			}
			p := &rtp.Packet{Channel: ch, Data: data}
			if kind != "" {
				p.Header.Unmarshal(p.Data)
			}
			ev := map[string]interface{}{"t": round, "e": "pub", "n": n, "ch": int(ch), "rtphash": hashOf(data), "mediahash": "", "key": false}
			if kind != "" {
				body := data[12:]
				if kind == "audio" {
					body = body[4:]
				}
				ev["mediahash"] = hashOf(body)
				ev["key"] = kind == "video" && body[0]&0x1f == 5
			}
			out.Put(ev)
			st.WriteRtpPacket(p)
		}
		gop := func(g int) {
			ts := uint32(g) * 90000
			for k := 0; k < 5; k++ {
				hdr := byte(0x41)
				if k == 0 {
					hdr = 0x65
				}
				publish(rtp.ChannelVideo, 96, ts+uint32(k)*3000, func(id string) []byte {
					return append([]byte{hdr}, []byte(id+strings.Repeat("v", 100+37*k))...)
				})
				publish(rtp.ChannelAudio, 97, uint32(g)*44100+uint32(k)*1024, func(id string) []byte {
					au := []byte(id + strings.Repeat("a", 20+k))
					return append([]byte{0, 16, byte(len(au) >> 5), byte(len(au) << 3)}, au...)
				})
			}
			publish(rtp.ChannelVideoControl, 0, 0, nil)
			if g < 5 || g%8 == 0 { // later on in bursts: the delivery goroutines of the players run side by side
				time.Sleep(2 * time.Millisecond)
			}
		}
		var clients []*client
		early := []func(*testing.T, string, string) *client{tcpClient, udpClient, wsrtspClient, httpflvClient, wspClient, wsrtspVideoClient, wspVideoClient}
		late := []func(*testing.T, string, string) *client{wspClient, wsflvClient, tcpClient, wspClient}
		for _, mk := range early {
			clients = append(clients, mk(t, srv.Addr, path))
		}
		time.Sleep(50 * time.Millisecond) // the FLV handlers answer the HTTP request a moment before they attach
		for g := 0; g < 4; g++ {
			gop(g)
		}
		for _, mk := range late { // attach in mid stream
			c := mk(t, srv.Addr, path)
			c.name = fmt.Sprintf("%s%d-late", c.name, len(clients))
			clients = append(clients, c)
		}
		gop(4)
		leaver := clients[0] // the first TCP client leaves early; the others must not notice
		leftAt := n
		leaver.stop()
		// the early WSP player vanishes without a word (browser tab closed): its sockets are just cut
		dropper := clients[4]
		dropper.name = "wsp-drop"
		dropAt := n
		dropper.cut()
		for g := 5; g < 85; g++ {
			gop(g)
		}
		last := n
		// The TCP / WebSocket / HTTP writers batch: a write goes out at once only if the previous flush is 20 ms old,
		// otherwise it waits in the connection's buffer for the next write.  A live publisher keeps writing; so does this
		// one for a moment - the trailer is not part of what is judged.
		for k := 0; k < 30; k++ {
			publish(rtp.ChannelVideo, 96, 85*90000+uint32(k+1)*3000, func(id string) []byte {
				return append([]byte{0x41}, []byte(id+strings.Repeat("t", 900))...)
			})
			time.Sleep(8 * time.Millisecond)
		}
		deadline := time.Now().Add(5 * time.Second)
		for time.Now().Before(deadline) {
			ok := true
			for ci, c := range clients[1:] {
				if ci+1 == 4 {
					continue // the dropped WSP player
				}
				want := last
				if c.proto == "flv" {
					want = last - 1 // the last judged packet is RTCP
				}
				if c.proto == "rtp-udp" {
					want = last - 1 // its sockets are read independently: wait for the last media packet
				}
				if c.g.last() < want {
					ok = false
				}
			}
			if ok {
				break
			}
			time.Sleep(2 * time.Millisecond)
		}
		time.Sleep(20 * time.Millisecond)
		for i, c := range clients {
			if i > 0 {
				c.stop()
			}
			c.g.mu.Lock()
			upto := last
			if i == 0 {
				upto = leftAt
			}
			if i == 4 {
				upto = dropAt
			}
			out.Put(map[string]interface{}{"t": round, "e": "client", "c": c.name, "proto": c.proto, "left_at": upto, "items": c.g.items(), "bad": c.g.bad})
			total += len(c.g.seq)
			c.g.mu.Unlock()
		}
		media.Unregist(st)
		st.Close()
	}
	vio.WriteJSON(t, "VERIF_OUT2", map[string]interface{}{"rounds": rounds, "items": total, "ws_writes": atomic.LoadInt64(&wsWrites), "ws_writes_slowed": atomic.LoadInt64(&wsSlow)})
}
