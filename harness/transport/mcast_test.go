//go:build verif

package transport

import (
	"fmt"
	"github.com/cnotch/ipchub/utils/vhook"
	"os"
	"strings"
	"sync/atomic"
	"testing"
	"time"

	"github.com/cnotch/ipchub/media"
	"verifharness/vclient"
	"verifharness/vio"
	"verifharness/vsrv"
)

// TestMulticast: players that asked for multicast delivery are consumers of the stream like any other (they share one
// proxy).  Multicast datagrams cannot be received here (no multicast route), but what the statement says about the
// players' connections and about independence from other consumers' coming and going can be observed on the RTSP
// connections and on the stream's consumer count.
func TestMulticast(t *testing.T) {
	srv, err := vsrv.Start(false, false)
	if err != nil {
		t.Fatal(err)
	}
	out := vio.Create(t, os.Getenv("VERIF_OUT"))
	defer out.Close()
	publish := func(path string) *vclient.RTSP {
		c, err := vclient.DialRTSP(srv.Addr)
		if err != nil {
			t.Fatal(err)
		}
		url := "rtsp://" + srv.Addr + path
		for _, st := range []struct {
			m, u string
			h    map[string]string
			b    string
		}{{"ANNOUNCE", url, map[string]string{"Content-Type": "application/sdp"}, strings.ReplaceAll(sdpAV, "\n", "\r\n")},
			{"SETUP", url + "/streamid=0", map[string]string{"Transport": "RTP/AVP/TCP;unicast;interleaved=0-1;mode=record"}, ""},
			{"SETUP", url + "/streamid=1", map[string]string{"Transport": "RTP/AVP/TCP;unicast;interleaved=2-3;mode=record"}, ""},
			{"RECORD", url, nil, ""}} {
			h := st.h
			if h == nil {
				h = map[string]string{}
			}
			if c.Session != "" {
				h["Session"] = c.Session
			}
			r, _, _ := c.Do(st.m, st.u, h, st.b, 3*time.Second)
			if r.Kind != "response" || r.Status != 200 {
				t.Fatalf("publisher %s: %v %d", st.m, r.Kind, r.Status)
			}
		}
		return c
	}
	player := func(path string) (*vclient.RTSP, bool) {
		c, err := vclient.DialRTSP(srv.Addr)
		if err != nil {
			t.Fatal(err)
		}
		do := func(m, u string, h map[string]string, body string) vclient.Item {
			r, _, _ := c.Do(m, u, h, body, 3*time.Second)
			return r
		}
		_, ok := playFlow(do, "rtsp://"+srv.Addr+path, [2]string{"RTP/AVP;multicast", "RTP/AVP;multicast"})
		return c, ok
	}
	closedWithin := func(c *vclient.RTSP, d time.Duration) bool {
		deadline := time.Now().Add(d)
		for time.Now().Before(deadline) {
			it := c.Read(100 * time.Millisecond)
			if it.Kind == "eof" || it.Kind == "torn" {
				return true
			}
		}
		return false
	}
	consumers := func(path string) int {
		if s := media.Get(path); s != nil {
			cc, _, _ := media.VerifCounts(s) // RTP consumers: the multicast proxy is one
			return cc
		}
		return -1
	}
	for round := 1; round <= 3; round++ {
		// (1) the stream ends: every multicast player's connection is closed
		path := fmt.Sprintf("/mc/%d/a", round)
		pub := publish(path)
		var ps []*vclient.RTSP
		okAll := true
		for i := 0; i < 3; i++ {
			p, ok := player(path)
			okAll = okAll && ok
			ps = append(ps, p)
		}
		before := consumers(path)
		pub.Close()
		var closed []bool
		for _, p := range ps {
			closed = append(closed, closedWithin(p, 3*time.Second))
			p.Close()
		}
		out.Put(map[string]interface{}{"t": round, "e": "mcast-end", "players_ok": okAll, "consumers_while_playing": before, "closed": closed})
		// (2) the first player leaves: the others keep being served (the proxy keeps consuming)
		path = fmt.Sprintf("/mc/%d/b", round)
		pub = publish(path)
		p1, ok1 := player(path)
		p2, ok2 := player(path)
		p1.Do("TEARDOWN", "rtsp://"+srv.Addr+path, map[string]string{"Session": p1.Session}, "", 2*time.Second)
		p1.Close()
		time.Sleep(100 * time.Millisecond)
		after := consumers(path)
		stillOpen := !closedWithin(p2, 300*time.Millisecond)
		// (3) the last player leaves as well: the session's membership is released, the proxy stops consuming
		p2.Do("TEARDOWN", "rtsp://"+srv.Addr+path, map[string]string{"Session": p2.Session}, "", 2*time.Second)
		p2.Close()
		afterAll := -1
		deadline := time.Now().Add(2 * time.Second)
		for time.Now().Before(deadline) {
			if afterAll = consumers(path); afterAll == 0 {
				break
			}
			time.Sleep(10 * time.Millisecond)
		}
		out.Put(map[string]interface{}{"t": round, "e": "mcast-leave", "players_ok": ok1 && ok2, "consumers_after_first_left": after, "second_still_connected": stillOpen,
			"consumers_after_all_left": afterAll})
		pub.Close()
	}
	// (4) the last player leaves and another one joins before the stopped consumer's delivery goroutine has wound up
	// (McastProxy.tla: Leave, Join, Exit).  The goroutine is held at the hook exit.begin - after it left its loop, before
	// it calls the proxy's Close - until the new player is playing.  The one who joined must be served: connection open,
	// proxy consuming.
	tries := 12
	if vio.Thorough() {
		tries = 60
	}
	var armed int32
	parked := make(chan struct{}, 1)
	release := make(chan struct{})
	vhook.SetHandler(func(point string, obj interface{}) {
		if point == "exit.begin" && atomic.CompareAndSwapInt32(&armed, 1, 0) {
			parked <- struct{}{}
			select {
			case <-release:
			case <-time.After(5 * time.Second):
			}
		}
	})
	defer vhook.SetHandler(nil)
	swapped, dropped, handshakes, gated := 0, 0, 0, 0
	for k := 0; k < tries; k++ {
		path := fmt.Sprintf("/mc/swap/%d", k)
		pub := publish(path)
		p1, ok1 := player(path)
		release = make(chan struct{})
		atomic.StoreInt32(&armed, 1)
		p1.Do("TEARDOWN", "rtsp://"+srv.Addr+path, map[string]string{"Session": p1.Session}, "", 2*time.Second)
		p1.Close()
		select {
		case <-parked:
			gated++
		case <-time.After(2 * time.Second):
			atomic.StoreInt32(&armed, 0)
		}
		p2, ok2 := player(path)
		close(release)
		if ok1 && ok2 {
			handshakes++
			time.Sleep(30 * time.Millisecond)
			if closedWithin(p2, 150*time.Millisecond) || consumers(path) != 1 {
				dropped++
			}
			swapped++
		}
		p2.Close()
		pub.Close()
	}
	out.Put(map[string]interface{}{"t": 4, "e": "mcast-swap", "tries": tries, "handshakes": handshakes, "gated": gated, "joiner_dropped": dropped})
}
