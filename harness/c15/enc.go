//go:build verif

// Independent bit-exact encoders for H.264 SPS (ITU-T H.264 7.3.2.1.1, E.1.1), H.265 VPS / SPS (ITU-T H.265 7.3.2.1,
// 7.3.2.2, 7.3.3, 7.3.4, 7.3.7, E.2) and MPEG-4 AudioSpecificConfig (ISO/IEC 14496-3 1.6.2.1), written from the
// syntax tables of the standards.  They share nothing with the decoders under test.
package c15

type bitw struct {
	b    []byte
	nbit int
}

func (w *bitw) u(n int, v uint64) {
	for i := n - 1; i >= 0; i-- {
		if w.nbit%8 == 0 {
			w.b = append(w.b, 0)
		}
		if v>>uint(i)&1 == 1 {
			w.b[len(w.b)-1] |= 1 << uint(7-w.nbit%8)
		}
		w.nbit++
	}
}
func (w *bitw) flag(v bool) {
	if v {
		w.u(1, 1)
	} else {
		w.u(1, 0)
	}
}
func (w *bitw) ue(v uint64) {
	x := v + 1
	n := 0
	for t := x; t > 1; t >>= 1 {
		n++
	}
	w.u(n, 0)
	w.u(n+1, x)
}
func (w *bitw) se(v int64) {
	if v > 0 {
		w.ue(uint64(2*v - 1))
	} else {
		w.ue(uint64(-2 * v))
	}
}
func (w *bitw) trailing() {
	w.u(1, 1)
	for w.nbit%8 != 0 {
		w.u(1, 0)
	}
}

// escape inserts emulation prevention bytes (7.4.1).
func escape(hdr int, b []byte) []byte {
	out := append([]byte(nil), b[:hdr]...)
	z := 0
	for _, x := range b[hdr:] {
		if z >= 2 && x <= 3 {
			out = append(out, 3)
			z = 0
		}
		out = append(out, x)
		if x == 0 {
			z++
		} else {
			z = 0
		}
	}
	return out
}

type pcase struct {
	Fam     string `json:"fam"`
	Prof    string `json:"prof"`
	Chroma  struct{ Idc, Sep int } `json:"chroma"`
	Scaling string `json:"scaling"`
	Poc     int    `json:"poc"`
	Fmo     int    `json:"fmo"`
	Mbaff   int    `json:"mbaff"`
	Crop    string `json:"crop"`
	Vui     string `json:"vui"`
	Size    struct{ Wmbs, Hmu, W, H int } `json:"size"`
	// hevc
	MaxSub    int    `json:"maxsub"`
	Ordering  int    `json:"ordering"`
	SubLayers string `json:"sublayers"`
	Conf      string `json:"conf"`
	Pcm       int    `json:"pcm"`
	Rps       string `json:"rps"`
	LongTerm  int    `json:"longterm"`
	// vps
	LayerSets int    `json:"layersets"`
	Timing    string `json:"timing"`
	// asc
	Mode  string `json:"mode"`
	Fidx  int    `json:"fidx"`
	Xfidx int    `json:"xfidx"`
	Chan  int    `json:"chan"`
}

func cropOf(class string) (l, r, t, b uint64) {
	switch class {
	case "bottom":
		return 0, 0, 0, 4
	case "lrtb":
		return 1, 2, 3, 4
	}
	return
}

// ---------------------------------------------------------------------------------------------- H.264
func h264hrd(w *bitw, cpb int, k int) {
	w.ue(uint64(cpb - 1))
	w.u(4, 3)
	w.u(4, 5)
	for i := 0; i < cpb; i++ {
		w.ue(uint64(1000*(i+1) + k)) // bit_rate_value_minus1
		w.ue(uint64(70000 + i))      // cpb_size_value_minus1
		w.flag(i%2 == 0)             // cbr_flag
	}
	w.u(5, 23)
	w.u(5, 23)
	w.u(5, 23)
	w.u(5, 24)
}

// EncodeH264SPS returns the NAL unit (with emulation prevention).
func EncodeH264SPS(c *pcase, k int) []byte {
	w := &bitw{}
	w.u(8, 0x67)
	prof := map[string]uint64{"base": 66, "high": 100, "h444": 244, "stereo": 128}[c.Prof]
	w.u(8, prof)
	w.u(8, uint64(k%4)<<6) // constraint flags + reserved zero bits
	w.u(8, 40)
	w.ue(uint64([]int{0, 31, 5}[k%3])) // seq_parameter_set_id
	if c.Prof != "base" {
		w.ue(uint64(c.Chroma.Idc))
		if c.Chroma.Idc == 3 {
			w.u(1, uint64(c.Chroma.Sep))
		}
		w.ue(uint64(k % 3))       // bit_depth_luma_minus8
		w.ue(uint64((k + 1) % 3)) // bit_depth_chroma_minus8
		w.u(1, 0)                 // qpprime_y_zero_transform_bypass_flag
		w.flag(c.Scaling != "none")
		if c.Scaling != "none" {
			n := 8
			if c.Chroma.Idc == 3 {
				n = 12
			}
			for i := 0; i < n; i++ {
				present := false
				switch c.Scaling {
				case "lists":
					present = i%2 == k%2
				case "term":
					present = i == 1 || i == 6 || i == n-1
				}
				w.flag(present)
				if !present {
					continue
				}
				size := 16
				if i >= 6 {
					size = 64
				}
				last, next := 8, 8
				for j := 0; j < size; j++ {
					if next != 0 {
						var delta int
						switch {
						case c.Scaling == "term" && j == 3+i%3: // next_scale becomes 0: the rest of the list repeats last_scale
							delta = -last
						case j%3 == 0:
							delta = -(j%5 + 1)
						default:
							delta = (j+k)%7 + 1
						}
						// keep next_scale within 1..255 unless the list is being ended
						if !(c.Scaling == "term" && j == 3+i%3) {
							for (last+delta+256)%256 == 0 {
								delta++
							}
						}
						w.se(int64(delta))
						next = (last + delta + 256) % 256
					}
					if next != 0 {
						last = next
					}
				}
			}
		}
	}
	w.ue(uint64([]int{0, 12, 4}[k%3])) // log2_max_frame_num_minus4
	w.ue(uint64(c.Poc))
	switch c.Poc {
	case 0:
		w.ue(uint64([]int{2, 12, 0}[k%3]))
	case 1:
		w.flag(k%2 == 0)
		w.se(-3 - int64(k%5))        // offset_for_non_ref_pic
		w.se(int64(k%4) - 2)         // offset_for_top_to_bottom_field
		nrf := 2 + k%2
		w.ue(uint64(nrf))
		for i := 0; i < nrf; i++ {
			w.se(int64((i+1)*(1-2*(i%2))) * 1000) // offset_for_ref_frame: large magnitudes, both signs
		}
	}
	w.ue(uint64(1 + k%4)) // max_num_ref_frames
	w.flag(k%2 == 1)      // gaps_in_frame_num_value_allowed_flag
	w.ue(uint64(c.Size.Wmbs - 1))
	w.ue(uint64(c.Size.Hmu - 1))
	w.u(1, uint64(c.Fmo))
	if c.Fmo == 0 {
		w.u(1, uint64(c.Mbaff))
	}
	w.flag(true) // direct_8x8_inference_flag
	l, r, t, b := cropOf(c.Crop)
	w.flag(c.Crop != "none")
	if c.Crop != "none" {
		w.ue(l)
		w.ue(r)
		w.ue(t)
		w.ue(b)
	}
	w.flag(c.Vui != "none")
	if c.Vui != "none" {
		full := c.Vui == "full"
		w.flag(full) // aspect_ratio_info_present_flag
		if full {
			w.u(8, 255)
			w.u(16, 40)
			w.u(16, 33)
		}
		w.flag(full) // overscan_info_present_flag
		if full {
			w.flag(true)
		}
		w.flag(full) // video_signal_type_present_flag
		if full {
			w.u(3, 5)
			w.flag(true)
			w.flag(true)
			w.u(8, 1)
			w.u(8, 1)
			w.u(8, 1)
		}
		w.flag(full) // chroma_loc_info_present_flag
		if full {
			w.ue(2)
			w.ue(3)
		}
		w.flag(true) // timing_info_present_flag
		switch c.Vui {
		case "fixed25":
			w.u(32, 1)
			w.u(32, 50)
			w.flag(true)
		case "ntsc":
			w.u(32, 1001)
			w.u(32, 60000)
			w.flag(false)
		case "full":
			w.u(32, 1)
			w.u(32, 60)
			w.flag(true)
		case "huge":
			w.u(32, 2147483649)
			w.u(32, 4000000000)
			w.flag(false)
		}
		w.flag(full) // nal_hrd_parameters_present_flag
		if full {
			h264hrd(w, 2, k)
		}
		w.flag(full) // vcl_hrd_parameters_present_flag
		if full {
			h264hrd(w, 1, k)
		}
		if full {
			w.flag(false) // low_delay_hrd_flag
		}
		w.flag(full) // pic_struct_present_flag
		w.flag(full) // bitstream_restriction_flag
		if full {
			w.flag(true)
			w.ue(2)
			w.ue(1)
			w.ue(11)
			w.ue(11)
			w.ue(2)
			w.ue(4)
		}
	}
	w.trailing()
	return escape(1, w.b)
}

// ---------------------------------------------------------------------------------------------- H.265
func ptl(w *bitw, maxSub int, sub bool, k int) {
	w.u(2, 0)
	w.u(1, uint64(k%2)) // tier
	w.u(5, 1)           // Main
	w.u(32, 0x60000000) // compatibility: Main, Main 10
	w.u(4, 0x9)         // progressive, frame only
	w.u(43, 0)
	w.u(1, 0)
	w.u(8, 120) // level 4
	for i := 0; i < maxSub; i++ {
		w.flag(sub && i == 0) // sub_layer_profile_present_flag
		w.flag(sub)           // sub_layer_level_present_flag
	}
	if maxSub > 0 {
		for i := maxSub; i < 8; i++ {
			w.u(2, 0)
		}
	}
	for i := 0; i < maxSub; i++ {
		if sub && i == 0 {
			w.u(2, 0)
			w.u(1, 0)
			w.u(5, 2) // Main 10
			w.u(32, 0x20000000)
			w.u(4, 0x9)
			w.u(43, 0)
			w.u(1, 0)
		}
		if sub {
			w.u(8, uint64(90+3*i))
		}
	}
}

func subLayerHrd(w *bitw, cpb int, subpic bool, k int) {
	for i := 0; i < cpb; i++ {
		w.ue(uint64(500*(i+1) + k))
		w.ue(uint64(9000 + i))
		if subpic {
			w.ue(uint64(100 + i))
			w.ue(uint64(200 + i))
		}
		w.flag(i%2 == 1)
	}
}

// hevcHrd writes hrd_parameters(common, maxSub) with sub-picture parameters and a different shape per sub-layer.
func hevcHrd(w *bitw, common bool, maxSub int, nal, vcl, subpic bool, k int) {
	if common {
		w.flag(nal)
		w.flag(vcl)
		if nal || vcl {
			w.flag(subpic)
			if subpic {
				w.u(8, 98)
				w.u(5, 7)
				w.flag(true)
				w.u(5, 9)
			}
			w.u(4, 2)
			w.u(4, 4)
			if subpic {
				w.u(4, 6)
			}
			w.u(5, 23)
			w.u(5, 15)
			w.u(5, 11)
		}
	}
	for i := 0; i <= maxSub; i++ {
		general := (i+k)%3 == 0
		w.flag(general)
		within := true
		if !general {
			within = (i+k)%3 == 1
			w.flag(within)
		}
		lowDelay := false
		if within {
			w.ue(uint64(i + 1)) // elemental_duration_in_tc_minus1
		} else {
			lowDelay = i%2 == 1
			w.flag(lowDelay)
		}
		cpb := 1
		if !lowDelay {
			cpb = 1 + (i+k)%3
			w.ue(uint64(cpb - 1))
		}
		if nal {
			subLayerHrd(w, cpb, subpic, k)
		}
		if vcl {
			subLayerHrd(w, cpb, subpic, k+1)
		}
	}
}

type rpsT struct {
	neg, pos []int // delta_poc_sX_minus1
}

// EncodeHevcSPS returns the NAL unit (with emulation prevention).
func EncodeHevcSPS(c *pcase, k int) []byte {
	w := &bitw{}
	w.u(16, 33<<9|1) // nal_unit_header: type 33, layer 0, tid+1 = 1
	w.u(4, uint64(k%16))
	w.u(3, uint64(c.MaxSub))
	w.flag(c.MaxSub == 0 || k%2 == 0)
	ptl(w, c.MaxSub, c.SubLayers == "present", k)
	w.ue(uint64([]int{0, 15, 3}[k%3])) // sps_seq_parameter_set_id
	w.ue(uint64(c.Chroma.Idc))
	if c.Chroma.Idc == 3 {
		w.u(1, uint64(c.Chroma.Sep))
	}
	w.ue(uint64(c.Size.W))
	w.ue(uint64(c.Size.H))
	l, r, t, b := cropOf(c.Conf)
	w.flag(c.Conf != "none")
	if c.Conf != "none" {
		w.ue(l)
		w.ue(r)
		w.ue(t)
		w.ue(b)
	}
	w.ue(uint64(k % 3))
	w.ue(uint64((k + 2) % 3))
	log2poc := []int{4, 0, 12}[k%3]
	w.ue(uint64(log2poc)) // log2_max_pic_order_cnt_lsb_minus4
	w.u(1, uint64(c.Ordering))
	first := c.MaxSub
	if c.Ordering == 1 {
		first = 0
	}
	for i := first; i <= c.MaxSub; i++ {
		w.ue(uint64(3 + i))       // sps_max_dec_pic_buffering_minus1
		w.ue(uint64(1 + i))       // sps_max_num_reorder_pics
		w.ue(uint64(i * (k + 1))) // sps_max_latency_increase_plus1
	}
	w.ue(0) // log2_min_luma_coding_block_size_minus3: 8 (both sizes are multiples of 8)
	w.ue(3) // log2_diff_max_min_luma_coding_block_size
	w.ue(0)
	w.ue(3)
	w.ue(uint64(k % 4))
	w.ue(uint64((k + 1) % 4))
	w.flag(c.Scaling != "off")
	if c.Scaling != "off" {
		w.flag(c.Scaling == "data")
		if c.Scaling == "data" {
			for sizeID := 0; sizeID < 4; sizeID++ {
				step := 1
				if sizeID == 3 {
					step = 3
				}
				for m := 0; m < 6; m += step {
					pred := (sizeID+m+k)%3 != 0
					w.flag(pred)
					if !pred {
						d := m
						if sizeID == 3 {
							d = m / 3
						}
						if d > 1 {
							d = 1
						}
						w.ue(uint64(d)) // scaling_list_pred_matrix_id_delta
						continue
					}
					n := 1 << uint(4+sizeID*2)
					if n > 64 {
						n = 64
					}
					if sizeID > 1 {
						w.se(int64(m) - 3) // scaling_list_dc_coef_minus8
					}
					for i := 0; i < n; i++ {
						w.se(int64((i+m)%9) - 4) // scaling_list_delta_coef
					}
				}
			}
		}
	}
	w.flag(k%2 == 0) // amp_enabled_flag
	w.flag(k%3 == 0) // sample_adaptive_offset_enabled_flag
	w.u(1, uint64(c.Pcm))
	if c.Pcm == 1 {
		w.u(4, 7)
		w.u(4, 7)
		w.ue(0)
		w.ue(2)
		w.flag(true)
	}
	// short-term reference picture sets (7.3.7)
	var sets []rpsT
	switch c.Rps {
	case "none":
		w.ue(0)
	default:
		n := map[string]int{"plain": 2, "inter": 3, "chain": 4, "zero": 3}[c.Rps]
		w.ue(uint64(n))
		for idx := 0; idx < n; idx++ {
			inter := idx > 0 && (c.Rps == "chain" || c.Rps == "zero" || (c.Rps == "inter" && idx == 2))
			if idx != 0 {
				w.flag(inter)
			}
			if !inter {
				s := rpsT{neg: []int{0, 1 + idx}, pos: []int{idx}}
				if idx == 1 {
					s.pos = nil
				}
				w.ue(uint64(len(s.neg)))
				w.ue(uint64(len(s.pos)))
				for i, d := range s.neg {
					w.ue(uint64(d))
					w.flag(i%2 == 0)
				}
				for _, d := range s.pos {
					w.ue(uint64(d))
					w.flag(true)
				}
				sets = append(sets, s)
				continue
			}
			// predicted from the previous set (delta_idx_minus1 is only present in slice headers): 7.4.8
			ref := sets[idx-1]
			deltaRps := -1
			if idx%2 == 1 {
				deltaRps = 2
			}
			if c.Rps == "zero" { // set 0 holds dPoc +1; set 1 = set 0 moved by -1 (that picture falls on 0 and drops out); set 2 from set 1
				deltaRps = []int{0, -1, 2}[idx]
			}
			if deltaRps < 0 {
				w.u(1, 1)
			} else {
				w.u(1, 0)
			}
			abs := deltaRps
			if abs < 0 {
				abs = -abs
			}
			w.ue(uint64(abs - 1))
			nd := len(ref.neg) + len(ref.pos)
			use := make([]bool, nd+1)
			for j := 0; j <= nd; j++ {
				used := (j+idx)%3 != 0
				w.flag(used)
				use[j] = true
				if !used {
					use[j] = j%2 == 0
					w.flag(use[j])
				}
			}
			// derive the predicted set (equations 7-61, 7-62)
			var refS0, refS1 []int
			d := 0
			for _, x := range ref.neg {
				d -= x + 1
				refS0 = append(refS0, d)
			}
			d = 0
			for _, x := range ref.pos {
				d += x + 1
				refS1 = append(refS1, d)
			}
			var s0, s1 []int
			for j := len(refS1) - 1; j >= 0; j-- {
				if dp := refS1[j] + deltaRps; dp < 0 && use[len(refS0)+j] {
					s0 = append(s0, dp)
				}
			}
			if deltaRps < 0 && use[nd] {
				s0 = append(s0, deltaRps)
			}
			for j := 0; j < len(refS0); j++ {
				if dp := refS0[j] + deltaRps; dp < 0 && use[j] {
					s0 = append(s0, dp)
				}
			}
			for j := len(refS0) - 1; j >= 0; j-- {
				if dp := refS0[j] + deltaRps; dp > 0 && use[j] {
					s1 = append(s1, dp)
				}
			}
			if deltaRps > 0 && use[nd] {
				s1 = append(s1, deltaRps)
			}
			for j := 0; j < len(refS1); j++ {
				if dp := refS1[j] + deltaRps; dp > 0 && use[len(refS0)+j] {
					s1 = append(s1, dp)
				}
			}
			var s rpsT
			prev := 0
			for _, x := range s0 {
				s.neg = append(s.neg, prev-x-1)
				prev = x
			}
			prev = 0
			for _, x := range s1 {
				s.pos = append(s.pos, x-prev-1)
				prev = x
			}
			sets = append(sets, s)
		}
	}
	w.u(1, uint64(c.LongTerm))
	if c.LongTerm == 1 {
		w.ue(2)
		for i := 0; i < 2; i++ {
			w.u(log2poc+4, uint64(5+i))
			w.flag(i == 0)
		}
	}
	w.flag(k%2 == 1) // sps_temporal_mvp_enabled_flag
	w.flag(true)     // strong_intra_smoothing_enabled_flag
	w.flag(c.Vui != "none")
	if c.Vui != "none" {
		full := c.Vui == "full"
		w.flag(full)
		if full {
			w.u(8, 255)
			w.u(16, 16)
			w.u(16, 11)
		}
		w.flag(full)
		if full {
			w.flag(false)
		}
		w.flag(full)
		if full {
			w.u(3, 5)
			w.flag(false)
			w.flag(true)
			w.u(8, 9)
			w.u(8, 16)
			w.u(8, 9)
		}
		w.flag(full)
		if full {
			w.ue(1)
			w.ue(1)
		}
		w.flag(false) // neutral_chroma_indication_flag
		w.flag(false) // field_seq_flag
		w.flag(full)  // frame_field_info_present_flag
		w.flag(full)  // default_display_window_flag
		if full {
			w.ue(0)
			w.ue(2)
			w.ue(0)
			w.ue(6)
		}
		w.flag(true) // vui_timing_info_present_flag
		switch c.Vui {
		case "timing":
			w.u(32, 1)
			w.u(32, 25)
		case "timinghrd":
			w.u(32, 1001)
			w.u(32, 30000)
		case "full":
			w.u(32, 1)
			w.u(32, 50)
		case "poc":
			w.u(32, 1)
			w.u(32, 24)
		}
		w.flag(c.Vui == "poc")
		if c.Vui == "poc" {
			w.ue(uint64(k % 5))
		}
		hrd := c.Vui == "timinghrd" || full
		w.flag(hrd)
		if hrd {
			hevcHrd(w, true, c.MaxSub, true, c.Vui == "timinghrd", c.Vui == "timinghrd", k)
		}
		w.flag(full) // bitstream_restriction_flag
		if full {
			w.flag(false)
			w.flag(true)
			w.flag(true)
			w.ue(0)
			w.ue(2)
			w.ue(1)
			w.ue(15)
			w.ue(15)
		}
	}
	w.flag(false) // sps_extension_present_flag
	w.trailing()
	return escape(2, w.b)
}

// EncodeHevcVPS returns the NAL unit (with emulation prevention).
func EncodeHevcVPS(c *pcase, k int) []byte {
	w := &bitw{}
	w.u(16, 32<<9|1)
	w.u(4, uint64(k%16))
	w.u(1, 1)
	w.u(1, 1)
	w.u(6, 0)
	w.u(3, uint64(c.MaxSub))
	w.flag(true) // vps_temporal_id_nesting_flag
	w.u(16, 0xffff)
	ptl(w, c.MaxSub, c.SubLayers == "present", k)
	w.u(1, uint64(c.Ordering))
	first := c.MaxSub
	if c.Ordering == 1 {
		first = 0
	}
	for i := first; i <= c.MaxSub; i++ {
		w.ue(uint64(2 + i))
		w.ue(uint64(i))
		w.ue(uint64(i * 7))
	}
	maxLayerID := 0
	if c.LayerSets > 0 {
		maxLayerID = 1
	}
	w.u(6, uint64(maxLayerID))
	w.ue(uint64(c.LayerSets))
	for i := 1; i <= c.LayerSets; i++ {
		for j := 0; j <= maxLayerID; j++ {
			w.flag((i+j)%2 == 0)
		}
	}
	w.flag(c.Timing != "none")
	if c.Timing != "none" {
		w.u(32, 1001)
		w.u(32, 24000)
		w.flag(c.Timing == "poc")
		if c.Timing == "poc" {
			w.ue(uint64(k % 7))
		}
		nh := map[string]int{"plain": 0, "poc": 0, "hrd1": 1, "hrd2": 2, "hrd2c": 2}[c.Timing]
		w.ue(uint64(nh))
		for i := 0; i < nh; i++ {
			w.ue(uint64(i % (c.LayerSets + 1))) // hrd_layer_set_idx
			common := true
			if i > 0 {
				common = c.Timing == "hrd2c"
				w.flag(common)
			}
			hevcHrd(w, common, c.MaxSub, true, true, i == 0, k+i)
		}
	}
	w.flag(false) // vps_extension_flag
	w.trailing()
	return escape(2, w.b)
}

// ---------------------------------------------------------------------------------------------- AudioSpecificConfig
var aacRates = []int{96000, 88200, 64000, 48000, 44100, 32000, 24000, 22050, 16000, 12000, 11025, 8000, 7350}

const explicitBase, explicitExt = 44056, 88112 // 24-bit explicit sampling frequencies used with index 15

func freq(w *bitw, idx int, explicit int) {
	w.u(4, uint64(idx))
	if idx == 15 {
		w.u(24, uint64(explicit))
	}
}

// EncodeASC returns the AudioSpecificConfig bytes.
func EncodeASC(c *pcase) []byte {
	w := &bitw{}
	ga := func() { // GASpecificConfig for AAC-LC: frameLengthFlag, dependsOnCoreCoder, extensionFlag
		w.u(1, 0)
		w.u(1, 0)
		w.u(1, 0)
	}
	switch c.Mode {
	case "sbr", "ps":
		aot := 5
		if c.Mode == "ps" {
			aot = 29
		}
		w.u(5, uint64(aot))
		freq(w, c.Fidx, explicitBase)
		w.u(4, uint64(c.Chan))
		freq(w, c.Xfidx, explicitExt) // extensionSamplingFrequencyIndex
		w.u(5, 2)                     // the underlying object type: AAC-LC
		ga()
	default:
		w.u(5, 2)
		freq(w, c.Fidx, explicitBase)
		w.u(4, uint64(c.Chan))
		ga()
		switch c.Mode {
		case "lc+sync-sbr", "lc+sync-sbr-ps":
			w.u(11, 0x2b7)
			w.u(5, 5)
			w.u(1, 1)
			freq(w, c.Xfidx, explicitExt)
			if c.Mode == "lc+sync-sbr-ps" {
				w.u(11, 0x548)
				w.u(1, 1)
			}
		case "lc+sync-nosbr":
			w.u(11, 0x2b7)
			w.u(5, 5)
			w.u(1, 0)
		case "lc+trailing":
			w.u(16, 0) // some encoders pad the configuration
		}
	}
	for w.nbit%8 != 0 {
		w.u(1, 0)
	}
	return w.b
}
