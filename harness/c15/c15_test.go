//go:build verif

// Package c15: encodes the parameter-set cases enumerated by TLC (spec/params/ParamCases.tla) with the independent
// encoders of enc.go, decodes them with the real decoders (directly and through an SDP / media.NewStream) and writes
// what they report as a trace that TLC validates against ParamProp.tla; a second driver feeds arbitrary and damaged
// bytes and records panics, hangs and whether a stream created from such an SDP is still usable.
package c15

import (
	"encoding/base64"
	"encoding/hex"
	"encoding/json"
	"fmt"
	"math"
	"math/rand"
	"os"
	"testing"
	"time"

	"github.com/cnotch/ipchub/av/codec"
	"github.com/cnotch/ipchub/av/codec/aac"
	"github.com/cnotch/ipchub/av/codec/h264"
	"github.com/cnotch/ipchub/av/codec/hevc"
	"github.com/cnotch/ipchub/av/format/rtp"
	"github.com/cnotch/ipchub/av/format/sdp"
	"github.com/cnotch/ipchub/media"
	"verifharness/vio"
)

const ppsB64 = "aO+8sA=="
const hevcVps = "QAEMAf//AWAAAAMAkAAAAwAAAwBdlZgJ"
const hevcPps = "RAHBcrRiQA=="

func sdpFor(fam string, ps []byte) string { return sdpForAudio(fam, ps, "90000") }

// sdpForAudio: enc is the rtpmap encoding of the audio line after the codec name ("rate" or "rate/channels").
func sdpForAudio(fam string, ps []byte, enc string) string {
	head := "v=0\r\no=- 0 0 IN IP4 127.0.0.1\r\ns=x\r\nc=IN IP4 127.0.0.1\r\nt=0 0\r\n"
	audio := "m=audio 0 RTP/AVP 97\r\na=rtpmap:97 MPEG4-GENERIC/44100/2\r\na=fmtp:97 profile-level-id=1;mode=AAC-hbr;sizelength=13;indexlength=3;indexdeltalength=3; config=121056E500\r\na=control:streamid=1\r\n"
	b64 := base64.StdEncoding.EncodeToString(ps)
	switch fam {
	case "h264":
		return head + "m=video 0 RTP/AVP 96\r\na=rtpmap:96 H264/90000\r\na=fmtp:96 packetization-mode=1; sprop-parameter-sets=" + b64 + "," + ppsB64 + "; profile-level-id=64001F\r\na=control:streamid=0\r\n" + audio
	case "hevc":
		return head + "m=video 0 RTP/AVP 96\r\na=rtpmap:96 H265/90000\r\na=fmtp:96 sprop-vps=" + hevcVps + "; sprop-sps=" + b64 + "; sprop-pps=" + hevcPps + "\r\na=control:streamid=0\r\n" + audio
	case "vps":
		return head + "m=video 0 RTP/AVP 96\r\na=rtpmap:96 H265/90000\r\na=fmtp:96 sprop-vps=" + b64 + "; sprop-sps=QgEBAWAAAAMAkAAAAwAAAwBdoAKAgC0WWVmkkyuAQAAA+kAAF3AC; sprop-pps=" + hevcPps + "\r\na=control:streamid=0\r\n" + audio
	default: // asc
		return head + "m=video 0 RTP/AVP 96\r\na=rtpmap:96 H264/90000\r\na=fmtp:96 packetization-mode=1; sprop-parameter-sets=Z2QAH6zZQFAFuhAAAAMAEAAAAwPI8YMZYA==," + ppsB64 + "\r\na=control:streamid=0\r\n" +
			"m=audio 0 RTP/AVP 97\r\na=rtpmap:97 MPEG4-GENERIC/" + enc + "\r\na=fmtp:97 profile-level-id=1;mode=AAC-hbr;sizelength=13;indexlength=3;indexdeltalength=3; config=" + hex.EncodeToString(ps) + "\r\na=control:streamid=1\r\n"
	}
}

func milli(f float64) int {
	if math.IsInf(f, 0) || math.IsNaN(f) || f > 1e6 || f < -1e6 {
		return -1
	}
	return int(math.Round(f * 1000))
}

func encode(c *pcase, k int) []byte {
	switch c.Fam {
	case "h264":
		return EncodeH264SPS(c, k)
	case "hevc":
		return EncodeHevcSPS(c, k)
	case "vps":
		return EncodeHevcVPS(c, k)
	}
	return EncodeASC(c)
}

func TestParams(t *testing.T) {
	out := vio.Create(t, os.Getenv("VERIF_OUT"))
	defer out.Close()
	n := 0
	vio.Lines(t, "VERIF_IN", func(raw json.RawMessage) {
		var c pcase
		var cm map[string]interface{}
		if err := json.Unmarshal(raw, &c); err != nil {
			t.Fatal(err)
		}
		json.Unmarshal(raw, &cm)
		n++
		ps := encode(&c, n)
		ev := map[string]interface{}{"t": n, "e": "param", "case": cm, "ok": false, "w": 0, "h": 0, "fps_milli": 0, "fixed": false,
			"sdp_w": 0, "sdp_h": 0, "sdp_fps_milli": 0, "sdp_fixed": false, "sdp_rate": 0, "sdp_ch": 0,
			"maxsub": 0, "nu": 0, "ts": 0, "level": 0, "rate": 0, "ch": 0, "hex": hex.EncodeToString(ps)}
		var video codec.VideoMeta
		var audio codec.AudioMeta
		rawsdp := sdpFor(c.Fam, ps)
		if c.Fam == "asc" {
			// a conformant audio line (RFC 3640): the clock rate is the rate the configuration stands for; the channel
			// count is given, or left out for mono (RFC 4566: the default is one channel)
			base, ext := explicitBase, explicitExt
			if c.Fidx != 15 {
				base = aacRates[c.Fidx]
			}
			if c.Xfidx != 15 {
				ext = aacRates[c.Xfidx]
			}
			rate := base
			switch c.Mode {
			case "sbr", "ps", "lc+sync-sbr", "lc+sync-sbr-ps":
				rate = ext
			}
			ch := c.Chan
			if ch == 7 {
				ch = 8
			}
			enc := fmt.Sprintf("%d/%d", rate, ch)
			if ch == 1 && n%2 == 0 {
				enc = fmt.Sprint(rate)
			}
			rawsdp = sdpForAudio("asc", ps, enc)
		}
		sdp.ParseMetadata(rawsdp, &video, &audio)
		ev["sdp_w"], ev["sdp_h"], ev["sdp_fps_milli"], ev["sdp_fixed"] = video.Width, video.Height, milli(video.FrameRate), video.FixedFrameRate
		ev["sdp_rate"], ev["sdp_ch"] = audio.SampleRate, audio.Channels
		switch c.Fam {
		case "h264":
			var s h264.RawSPS
			if err := s.Decode(ps); err == nil {
				ev["ok"], ev["w"], ev["h"], ev["fps_milli"], ev["fixed"] = true, s.Width(), s.Height(), milli(s.FrameRate()), s.IsFixedFrameRate()
			}
		case "hevc":
			var s hevc.H265RawSPS
			if err := s.Decode(ps); err == nil {
				ev["ok"], ev["w"], ev["h"], ev["fps_milli"] = true, s.Width(), s.Height(), milli(s.FrameRate())
			}
		case "vps":
			var v hevc.H265RawVPS
			if err := v.Decode(ps); err == nil {
				ev["ok"], ev["maxsub"], ev["level"] = true, int(v.Vps_max_sub_layers_minus1), int(v.Profile_tier_level.General_level_idc)
				ev["nu"], ev["ts"] = int(v.Vps_num_units_in_tick), int(v.Vps_time_scale)
			}
		default:
			// what the server derives for a stream from the configuration alone (the path taken when the SDP's
			// rtpmap does not settle the rate): aac.MetadataIsReady on a metadata record that holds only the config
			var a aac.AudioSpecificConfig
			am := codec.AudioMeta{Codec: "AAC", Sps: ps}
			if err := a.Decode(ps); err == nil && aac.MetadataIsReady(&am) {
				ev["ok"], ev["rate"], ev["ch"] = true, am.SampleRate, am.Channels
			}
		}
		out.Put(ev)
	})
	vio.WriteJSON(t, "VERIF_OUT2", map[string]interface{}{"cases": n})
}

// guarded runs f with a deadline; decoders recover their own panics, anything that escapes is reported.
func guarded(f func() error) string {
	done := make(chan string, 1)
	go func() {
		defer func() {
			if r := recover(); r != nil {
				done <- "panic: " + fmt.Sprint(r)
			}
		}()
		if err := f(); err != nil {
			done <- "error"
			return
		}
		done <- "ok"
	}()
	select {
	case o := <-done:
		return o
	case <-time.After(10 * time.Second):
		return "stuck"
	}
}

type sinkConsumer struct{ n int }

func (s *sinkConsumer) Consume(p media.Pack) { s.n++ }
func (s *sinkConsumer) Close() error         { return nil }

// usable: a stream created from an SDP with these bytes as parameter set exists and relays RTP.
func usable(fam string, ps []byte, id int) bool {
	ok := false
	guarded(func() error {
		st := media.NewStream(fmt.Sprintf("/c15/%d", id), sdpFor(fam, ps))
		if st == nil {
			return nil
		}
		defer st.Close()
		sc := &sinkConsumer{}
		cid := st.StartConsume(sc, media.RTPPacket, "c15")
		pkt := &rtp.Packet{Channel: rtp.ChannelVideo, Data: append([]byte{0x80, 96, 0, 1, 0, 0, 0, 9, 0, 0, 0, 1}, 0x41, 1, 2, 3)}
		pkt.Header.Unmarshal(pkt.Data)
		st.WriteRtpPacket(pkt)
		deadline := time.Now().Add(2 * time.Second)
		for sc.n == 0 && time.Now().Before(deadline) {
			time.Sleep(100 * time.Microsecond)
		}
		st.StopConsume(cid)
		ok = sc.n > 0
		return nil
	})
	return ok
}

func TestTotal(t *testing.T) {
	out := vio.Create(t, os.Getenv("VERIF_OUT"))
	defer out.Close()
	rng := rand.New(rand.NewSource(vio.Seed()))
	n := 0
	decode := func(fam string, b []byte) string {
		return guarded(func() error {
			switch fam {
			case "h264":
				var s h264.RawSPS
				err := s.Decode(b)
				_, _, _ = s.Width(), s.Height(), s.FrameRate()
				return err
			case "hevc":
				var s hevc.H265RawSPS
				err := s.Decode(b)
				_, _, _ = s.Width(), s.Height(), s.FrameRate()
				return err
			case "vps":
				var v hevc.H265RawVPS
				return v.Decode(b)
			}
			var a aac.AudioSpecificConfig
			return a.Decode(b)
		})
	}
	emit := func(fam, src string, b []byte, checkStream bool) {
		n++
		u := true
		if checkStream {
			u = usable(fam, b, n)
		}
		out.Put(map[string]interface{}{"t": n, "e": "total", "fam": fam, "src": src, "outcome": decode(fam, b), "usable": u, "len": len(b)})
	}
	var bases []struct {
		fam string
		b   []byte
	}
	vio.Lines(t, "VERIF_IN", func(raw json.RawMessage) {
		var c pcase
		if err := json.Unmarshal(raw, &c); err != nil {
			t.Fatal(err)
		}
		bases = append(bases, struct {
			fam string
			b   []byte
		}{c.Fam, encode(&c, len(bases))})
	})
	thorough := vio.Thorough()
	for bi, bs := range bases {
		// truncation at every byte, every bit flipped (quick: a stride), byte replaced by 0x00 / 0xff
		for cut := 0; cut < len(bs.b); cut++ {
			emit(bs.fam, "truncate", bs.b[:cut], cut%7 == bi%7)
		}
		stride := 5
		if thorough {
			stride = 1
		}
		for bit := bi % stride; bit < len(bs.b)*8; bit += stride {
			d := append([]byte(nil), bs.b...)
			d[bit/8] ^= 1 << uint(7-bit%8)
			emit(bs.fam, "bitflip", d, bit%41 == 0)
		}
		for i := 0; i < len(bs.b); i += 3 {
			for _, v := range []byte{0, 0xff} {
				d := append([]byte(nil), bs.b...)
				d[i] = v
				emit(bs.fam, "byte", d, false)
			}
		}
	}
	hdr := map[string][]byte{"h264": {0x67}, "hevc": {0x42, 0x01}, "vps": {0x40, 0x01}, "asc": {}}
	rounds := 400
	if thorough {
		rounds = 20000
	}
	for _, fam := range []string{"h264", "hevc", "vps", "asc"} {
		for i := 0; i < rounds; i++ {
			b := make([]byte, rng.Intn(80))
			rng.Read(b)
			switch i % 4 {
			case 1: // all ones: Exp-Golomb prefixes of length zero everywhere
				for j := range b {
					b[j] = 0xff
				}
			case 2: // all zeros: endless Exp-Golomb prefix
				for j := range b {
					b[j] = 0
				}
			}
			if i%2 == 0 {
				b = append(append([]byte(nil), hdr[fam]...), b...)
			}
			emit(fam, "random", b, i%10 == 0)
		}
	}
	vio.WriteJSON(t, "VERIF_OUT2", map[string]interface{}{"runs": n, "bases": len(bases)})
}
