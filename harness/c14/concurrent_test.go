//go:build verif

package c14

import (
	"bufio"
	"bytes"
	"fmt"
	"net/url"
	"runtime"
	"sort"
	"strings"
	"sync"
	"sync/atomic"
	"testing"
	"time"

	"github.com/cnotch/ipchub/av/format/rtsp"
	"verifharness/vio"
)

// TestConcurrentEncode: a server emits the messages of many sessions at the same time.  Sixteen goroutines (more than
// there are Ps, so that the scheduler pre-empts them inside the encoder) each serialise their own responses and
// requests - header sets that differ per goroutine in number, names and values - and parse every one of them back:
// it must be the message that goroutine built.
func TestConcurrentEncode(t *testing.T) {
	defer runtime.GOMAXPROCS(runtime.GOMAXPROCS(4))
	dur := 2500 * time.Millisecond
	if vio.Thorough() {
		dur = 15 * time.Second
	}
	var total, wrong int64
	var mu sync.Mutex
	sample := ""
	stop := time.Now().Add(dur)
	var wg sync.WaitGroup
	for g := 0; g < 16; g++ {
		g := g
		wg.Add(1)
		go func() {
			defer wg.Done()
			for n := 0; time.Now().Before(stop); n++ {
				h := rtsp.Header{}
				want := map[string]string{}
				set := func(k, v string) { h.Set(k, v); want[k] = v }
				set("CSeq", fmt.Sprint(n))
				set("Session", fmt.Sprintf("sess-%d", g))
				for k := 0; k <= (g+n)%7; k++ { // 1..7 more fields, names and values carry the goroutine
					set(fmt.Sprintf("X-G%d-F%d", g, k), fmt.Sprintf("g%d-n%d-k%d", g, n, k))
				}
				if g%2 == 0 {
					set("Transport", fmt.Sprintf("RTP/AVP/TCP;unicast;interleaved=%d-%d", 2*g, 2*g+1))
				}
				var b bytes.Buffer
				var got rtsp.Header
				code := 200 + g
				var err error
				if n%2 == 0 {
					(&rtsp.Response{StatusCode: code, Header: h}).Write(&b)
					var r *rtsp.Response
					if r, err = rtsp.ReadResponse(bufio.NewReader(bytes.NewReader(b.Bytes()))); err == nil {
						got = r.Header
						if r.StatusCode != code {
							err = fmt.Errorf("status %d", r.StatusCode)
						}
					}
				} else {
					req := &rtsp.Request{Method: "OPTIONS", Header: h}
					req.URL, _ = parseURL(fmt.Sprintf("rtsp://h%d/live", g))
					req.Write(&b)
					var r *rtsp.Request
					if r, err = rtsp.ReadRequest(bufio.NewReader(bytes.NewReader(b.Bytes()))); err == nil {
						got = r.Header
					}
				}
				atomic.AddInt64(&total, 1)
				ok := err == nil
				if ok {
					have := map[string]string{}
					for k, v := range got {
						if k != "Content-Length" {
							have[k] = strings.Join(v, ", ")
						}
					}
					ok = fmt.Sprint(sortedMap(have)) == fmt.Sprint(sortedMap(want))
				}
				if !ok {
					atomic.AddInt64(&wrong, 1)
					mu.Lock()
					if sample == "" {
						sample = fmt.Sprintf("goroutine %d message %d: built %v, on the wire %.400q (err %v)", g, n, sortedMap(want), b.String(), err)
					}
					mu.Unlock()
				}
			}
		}()
	}
	wg.Wait()
	vio.WriteJSON(t, "VERIF_OUT", map[string]interface{}{"messages": total, "wrong": wrong, "sample": sample})
}

func sortedMap(m map[string]string) []string {
	var out []string
	for k, v := range m {
		out = append(out, k+"="+v)
	}
	sort.Strings(out)
	return out
}

func parseURL(s string) (*url.URL, error) { return url.Parse(s) }
