//go:build verif

// Package c14: turns the message-sequence cases enumerated by TLC (spec/rtspwire/WireCases.tla) into bytes - with
// the codec's own writers ("real") or an independent serialiser ("peer") -, delivers them in the chosen chunking to
// the real connection dispatcher (service/rtsp receive -> ReadRequest / ReadResponse / ReadPacket) and records what
// it yields and where the reader stands afterwards; TLC validates the records against RtspWire.tla.  A second
// driver feeds the fault cases of WireFaults.tla (truncation and mutation at every offset, over-long lines, absurd
// Content-Length, garbage) and records outcome, bytes consumed and memory allocated.
package c14

import (
	"bufio"
	"bytes"
	"crypto/sha1"
	"encoding/binary"
	"encoding/hex"
	"encoding/json"
	"fmt"
	"io"
	"math/rand"
	"net/url"
	"os"
	"runtime"
	"sort"
	"strings"
	"testing"
	"time"

	"github.com/cnotch/ipchub/av/format/rtp"
	"github.com/cnotch/ipchub/av/format/rtsp"
	srtsp "github.com/cnotch/ipchub/service/rtsp"
	"verifharness/vio"
)

type shape struct {
	K    string `json:"k"`
	M    string `json:"m"`
	URL  string `json:"url"`
	Hdr  string `json:"hdr"`
	Body string `json:"body"`
	Src  string `json:"src"`
	Code int    `json:"code"`
	Ch   int    `json:"ch"`
	Size int    `json:"size"`
}

type wcase struct {
	Msgs  []shape `json:"msgs"`
	Chunk string  `json:"chunk"`
}

// channel numbers on the wire for video, video control, audio, audio control: what a client may negotiate in SETUP
// (interleaved=a-b). chanCfg is the one in force for the case being replayed.
var chanCfgs = [][]int{{2, 3, 0, 1}, {0, 1, 2, 3}, {4, 5, 6, 7}, {1, 2, 8, 9}, {254, 255, 100, 101}}
var chanCfg = chanCfgs[0]

var urls = map[string]string{
	"plain": "rtsp://cam.example/live/a",
	"v6":    "rtsp://[2001:db8::1]:8554/live/a",
	"v6np":  "rtsp://[fe80::1%25eth0]/live/a",
	"port":  "rtsp://10.0.0.7:554/live/a/track1",
	"query": "rtsp://h/live/a?token=abc&x=1",
	"star":  "*",
}

func hashOf(b []byte) string {
	h := sha1.Sum(b)
	return hex.EncodeToString(h[:6])
}

func bodyOf(class string, seed int) string {
	switch class {
	case "small":
		return "v=0\r\no=- 0 0 IN IP4 127.0.0.1\r\ns=x\r\nt=0 0\r\n\r\n"
	case "big":
		// crosses the reader's 4096-byte buffer and contains everything the dispatcher looks for
		var b strings.Builder
		for b.Len() < 5000 {
			fmt.Fprintf(&b, "a=x:%d $\x00\x00\x04 RTSP/1.0 200 OK\r\n\r\nOPTIONS * RTSP/1.0\r\n", seed+b.Len())
		}
		return b.String()[:5000]
	}
	return ""
}

type wantMsg struct {
	Kind   string
	Method string
	URL    string
	Code   int
	Hdrs   [][2]string // sorted by key, values joined, Content-Length left out
	Body   string
	Ch     int
	Data   []byte
}

func sortedHdrs(h map[string][]string) [][2]string {
	var out [][2]string
	for k, v := range h {
		if k == "Content-Length" {
			continue
		}
		out = append(out, [2]string{k, strings.Join(v, ", ")})
	}
	sort.Slice(out, func(i, j int) bool { return out[i][0] < out[j][0] })
	return out
}

// build returns the bytes of one message and what a reader must make of it
func build(s shape, i int, rng *rand.Rand) ([]byte, wantMsg) {
	if s.K == "frame" {
		data := make([]byte, s.Size)
		rng.Read(data)
		if s.Ch == rtp.ChannelVideo || s.Ch == rtp.ChannelAudio {
			data[0], data[1] = 0x80, 96 // V=2, no padding, no extension, no CSRC
		}
		var b bytes.Buffer
		p := &rtp.Packet{Channel: byte(s.Ch), Data: data}
		if err := p.Write(&b, chanCfg); err != nil {
			panic(err)
		}
		return b.Bytes(), wantMsg{Kind: "frame", Ch: s.Ch, Data: data}
	}
	w := wantMsg{Kind: s.K, Method: s.M, URL: urls[s.URL], Code: s.Code, Body: bodyOf(s.Body, i)}
	type line struct{ k, v string }
	lines := []line{{"CSeq", fmt.Sprint(7 + i)}}
	hdr := map[string][]string{"CSeq": {fmt.Sprint(7 + i)}}
	peerLines := []line{}
	switch s.Hdr {
	case "multi":
		hdr["Require"] = []string{"funky-feature", "other.feature"}
		peerLines = append(peerLines, line{"Require", "funky-feature"}, line{"Require", "other.feature"})
	case "case":
		hdr["Session"] = []string{"12345678"}
		hdr["Transport"] = []string{"RTP/AVP/TCP;unicast;interleaved=0-1"}
		peerLines = append(peerLines, line{"session", "12345678"}, line{"TRANSPORT", "RTP/AVP/TCP;unicast;interleaved=0-1"})
	case "unknown":
		hdr["X-Custom-Thing"] = []string{"v1; q=\"a:b\""}
		lines = append(lines, line{"X-Custom-Thing", "v1; q=\"a:b\""})
	case "long":
		v := strings.Repeat("u", 5000)
		hdr["User-Agent"] = []string{v}
		lines = append(lines, line{"User-Agent", v})
	case "empty":
		hdr["Accept"] = []string{""}
		lines = append(lines, line{"Accept", ""})
	}
	if w.Body != "" {
		hdr["Content-Type"] = []string{"application/sdp"}
		lines = append(lines, line{"Content-Type", "application/sdp"})
	}
	w.Hdrs = sortedHdrs(hdr)
	var b bytes.Buffer
	if s.Src == "real" {
		h := rtsp.Header{}
		for _, l := range lines {
			h[l.k] = append(h[l.k], l.v)
		}
		if s.K == "req" {
			u, err := url.Parse(urls[s.URL])
			if err != nil {
				panic(err)
			}
			(&rtsp.Request{Method: s.M, URL: u, Header: h, Body: w.Body}).Write(&b)
		} else {
			(&rtsp.Response{StatusCode: s.Code, Header: h, Body: w.Body}).Write(&b)
		}
		return b.Bytes(), w
	}
	// another implementation: bare LF on odd lines, padding around values, its own header-name case
	n := 0
	eol := func() string {
		n++
		if (n+i)%2 == 1 {
			return "\n"
		}
		return "\r\n"
	}
	if s.K == "req" {
		b.WriteString(s.M + " " + urls[s.URL] + " RTSP/1.0" + eol())
	} else {
		b.WriteString(fmt.Sprintf("RTSP/1.0 %d %s", s.Code, map[int]string{200: "OK", 401: "Unauthorized", 454: "Session Not Found", 551: "Option not supported"}[s.Code]) + eol())
	}
	for _, l := range append(lines, peerLines...) {
		k := l.k
		if s.Hdr == "case" && k == "CSeq" {
			k = "cseq"
		}
		b.WriteString(k + ":  " + l.v + " " + eol())
	}
	if w.Body != "" {
		k := "Content-Length"
		if s.Hdr == "case" {
			k = "content-length"
		}
		b.WriteString(fmt.Sprintf("%s: %d%s", k, len(w.Body), eol()))
	}
	b.WriteString(eol())
	b.WriteString(w.Body)
	return b.Bytes(), w
}

// chunkReader delivers data in pieces ending at the given cut offsets (ascending), then EOF (or tail behaviour).
type chunkReader struct {
	data   []byte
	off    int
	cuts   []int
	tail   func(p []byte) (int, error) // after the data (nil: EOF)
	budget int                         // bytes the tail may still deliver
}

func (c *chunkReader) Read(p []byte) (int, error) {
	if c.off >= len(c.data) {
		if c.tail != nil {
			return c.tail(p)
		}
		return 0, io.EOF
	}
	end := len(c.data)
	for _, x := range c.cuts {
		if x > c.off {
			end = x
			break
		}
	}
	if end-c.off > len(p) {
		end = c.off + len(p)
	}
	n := copy(p, c.data[c.off:end])
	c.off += n
	return n, nil
}

func cutsFor(class string, total int, bounds []int) []int {
	var cuts []int
	step := 0
	switch class {
	case "whole":
		return nil
	case "bytewise":
		step = 1
	case "c7":
		step = 7
	case "c4093":
		step = 4093
	case "boundary-1":
		for _, b := range bounds {
			if b-1 > 0 {
				cuts = append(cuts, b-1)
			}
		}
		return cuts
	case "boundary+1":
		for _, b := range bounds {
			if b+1 < total {
				cuts = append(cuts, b+1)
			}
		}
		return cuts
	}
	for x := step; x < total; x += step {
		cuts = append(cuts, x)
	}
	return cuts
}

type gotMsg struct {
	Kind   string
	Method string
	URL    string
	Proto  string
	Code   int
	Hdrs   [][2]string
	Body   string
	Ch     int
	Data   []byte
	Pos    int
}

type handler struct {
	br   *bufio.Reader
	cr   *chunkReader
	got  []gotMsg
	stop int // stop after this many messages (0: never)
}

func (h *handler) pos() int { return h.cr.off - h.br.Buffered() }
func (h *handler) OnRequest(r *srtsp.Request) error {
	u := ""
	if r.URL != nil {
		u = r.URL.String()
	}
	h.got = append(h.got, gotMsg{Kind: "req", Method: r.Method, URL: u, Proto: r.Proto, Hdrs: sortedHdrs(r.Header), Body: r.Body, Pos: h.pos()})
	return nil
}
func (h *handler) OnResponse(r *srtsp.Response) error {
	h.got = append(h.got, gotMsg{Kind: "resp", Code: r.StatusCode, Proto: r.Proto, Hdrs: sortedHdrs(r.Header), Body: r.Body, Pos: h.pos()})
	return nil
}
func (h *handler) OnPack(p *srtsp.RTPPack) error {
	h.got = append(h.got, gotMsg{Kind: "frame", Ch: int(p.Channel), Data: p.Data, Pos: h.pos()})
	return nil
}

func hdrJSON(h [][2]string) []map[string]string {
	out := []map[string]string{}
	for _, kv := range h {
		v := kv[1]
		if len(v) > 64 {
			v = fmt.Sprintf("%d:%s", len(v), hashOf([]byte(v)))
		}
		out = append(out, map[string]string{"k": kv[0], "v": v})
	}
	return out
}

func TestWire(t *testing.T) {
	var cases []wcase
	vio.Lines(t, "VERIF_IN", func(raw json.RawMessage) {
		var c wcase
		if err := json.Unmarshal(raw, &c); err != nil {
			t.Fatal(err)
		}
		cases = append(cases, c)
	})
	out := vio.Create(t, os.Getenv("VERIF_OUT"))
	defer out.Close()
	rng := rand.New(rand.NewSource(vio.Seed()))
	msgs := 0
	for ci, c := range cases {
		tid := ci + 1
		chanCfg = chanCfgs[ci%len(chanCfgs)]
		var data []byte
		var wants []wantMsg
		var bounds []int
		for i, s := range c.Msgs {
			b, w := build(s, i, rng)
			data = append(data, b...)
			wants = append(wants, w)
			bounds = append(bounds, len(data))
		}
		cr := &chunkReader{data: data, cuts: cutsFor(c.Chunk, len(data), bounds)}
		br := bufio.NewReader(cr)
		h := &handler{br: br, cr: cr}
		out.Put(map[string]interface{}{"t": tid, "e": "begin", "n": len(wants), "chunk": c.Chunk, "total": len(data)})
		var err error
		panicked := ""
		func() {
			defer func() {
				if r := recover(); r != nil {
					panicked = fmt.Sprint(r)
				}
			}()
			for k := 0; k < len(wants)+2; k++ {
				if err = srtsp.VerifReceive(br, chanCfg, h); err != nil {
					break
				}
			}
		}()
		for i, g := range h.got {
			msgs++
			ev := map[string]interface{}{"t": tid, "e": "msg", "i": i + 1, "kind": g.Kind, "pos": g.Pos, "extra": i >= len(wants)}
			if i < len(wants) {
				w := wants[i]
				ev["wkind"], ev["wpos"] = w.Kind, bounds[i]
				ev["method"], ev["wmethod"] = g.Method, w.Method
				ev["url"], ev["wurl"] = g.URL, w.URL
				ev["code"], ev["wcode"] = g.Code, w.Code
				ev["proto"] = g.Proto
				ev["hdrs"], ev["whdrs"] = hdrJSON(g.Hdrs), hdrJSON(w.Hdrs)
				ev["bodylen"], ev["wbodylen"] = len(g.Body), len(w.Body)
				ev["bodyhash"], ev["wbodyhash"] = hashOf([]byte(g.Body)), hashOf([]byte(w.Body))
				ev["ch"], ev["wch"] = g.Ch, w.Ch
				ev["len"], ev["wlen"] = len(g.Data), len(w.Data)
				ev["hash"], ev["whash"] = hashOf(g.Data), hashOf(w.Data)
			}
			out.Put(ev)
		}
		es := "none"
		switch {
		case panicked != "":
			es = "panic: " + panicked
		case err == io.EOF:
			es = "eof"
		case err != nil:
			es = "error: " + err.Error()
		}
		out.Put(map[string]interface{}{"t": tid, "e": "end", "yielded": len(h.got), "n": len(wants), "err": es, "pos": h.pos(), "total": len(data)})
	}
	vio.WriteJSON(t, "VERIF_OUT2", map[string]interface{}{"cases": len(cases), "messages": msgs})
}

// ---------------------------------------------------------------------------------------------- faults

type fcase struct {
	Base  shape  `json:"base"`
	Fault string `json:"fault"`
	Val   string `json:"val"`
}

func runGuarded(data []byte, tail func(*chunkReader) func([]byte) (int, error), maxIter int) (outcome string, yielded int, consumed int, allocMB int, errText string) {
	cr := &chunkReader{data: data}
	if tail != nil {
		cr.tail = tail(cr)
	}
	br := bufio.NewReader(cr)
	h := &handler{br: br, cr: cr}
	done := make(chan string, 1)
	var ms0, ms1 runtime.MemStats
	runtime.ReadMemStats(&ms0)
	go func() {
		defer func() {
			if r := recover(); r != nil {
				done <- "panic: " + fmt.Sprint(r)
			}
		}()
		for k := 0; k < maxIter; k++ {
			if err := srtsp.VerifReceive(br, chanCfg, h); err != nil {
				errText = err.Error()
				done <- "error"
				return
			}
		}
		done <- "yield"
	}()
	select {
	case outcome = <-done:
	case <-time.After(20 * time.Second):
		outcome = "stuck"
	}
	runtime.ReadMemStats(&ms1)
	allocMB = int((ms1.TotalAlloc - ms0.TotalAlloc) >> 20)
	return outcome, len(h.got), cr.off + cr.budgetUsed(), allocMB, errText
}

func (c *chunkReader) budgetUsed() int { return c.budget }

// endless delivers filler bytes after the data until 8 MiB have gone by, then fails.
func endless(fill byte) func(*chunkReader) func([]byte) (int, error) {
	return func(c *chunkReader) func([]byte) (int, error) {
		return func(p []byte) (int, error) {
			if c.budget >= 8<<20 {
				return 0, fmt.Errorf("harness: 8 MiB of filler delivered and still reading")
			}
			for i := range p {
				p[i] = fill
			}
			c.budget += len(p)
			return len(p), nil
		}
	}
}

func TestFaults(t *testing.T) {
	var cases []fcase
	vio.Lines(t, "VERIF_IN", func(raw json.RawMessage) {
		var c fcase
		if err := json.Unmarshal(raw, &c); err != nil {
			t.Fatal(err)
		}
		cases = append(cases, c)
	})
	out := vio.Create(t, os.Getenv("VERIF_OUT"))
	defer out.Close()
	rng := rand.New(rand.NewSource(vio.Seed()))
	runs := 0
	emit := func(tid int, c fcase, off int, outcome string, yielded, consumed, alloc int, errText string, extra map[string]interface{}) {
		runs++
		ev := map[string]interface{}{"t": tid, "e": "neg", "fault": c.Fault, "val": c.Val, "off": off, "kind": c.Base.K, "outcome": outcome, "yielded": yielded,
			"consumed": consumed, "alloc_mb": alloc, "err": errText, "complete_before": 0, "budget_hit": strings.HasPrefix(errText, "harness:")}
		for k, v := range extra {
			ev[k] = v
		}
		out.Put(ev)
	}
	for ci, c := range cases {
		tid := ci + 1
		base, _ := build(c.Base, 0, rng)
		// a complete good message in front, so that "yields exactly the complete messages" can be judged
		good, _ := build(shape{K: "req", M: "OPTIONS", URL: "plain", Hdr: "min", Body: "none", Src: "real"}, 1, rng)
		switch c.Fault {
		case "truncate": // the stream ends inside the message, at every offset
			offs := []int{}
			for o := 1; o < len(base); o++ {
				if len(base) <= 400 || o < 200 || o > len(base)-120 || o%97 == 0 {
					offs = append(offs, o)
				}
			}
			for _, o := range offs {
				data := append(append([]byte(nil), good...), base[:o]...)
				oc, y, cons, al, et := runGuarded(data, nil, 6)
				emit(tid, c, o, oc, y, cons, al, et, map[string]interface{}{"complete_before": 1})
			}
		case "mutate": // one byte replaced, at every offset of the head (first line and header lines)
			var v byte
			fmt.Sscanf(c.Val, "%d", &v)
			lim := len(base)
			if lim > 160 {
				lim = 160
			}
			for o := 0; o < lim; o++ {
				if base[o] == v {
					continue
				}
				data := append([]byte(nil), base...)
				data[o] = v
				data = append(data, good...)
				oc, y, cons, al, et := runGuarded(data, nil, 8)
				emit(tid, c, o, oc, y, cons, al, et, nil)
			}
		case "longline": // a line that never ends: first line, header line, header name without colon
			var head string
			switch c.Val {
			case "first":
				head = "DESCRIBE rtsp://h/"
			case "header":
				head = "DESCRIBE rtsp://h/a RTSP/1.0\r\nCSeq: 1\r\nUser-Agent: "
			case "status":
				head = "RTSP/1.0 200 "
			}
			oc, y, cons, al, et := runGuarded([]byte(head), endless('A'), 3)
			emit(tid, c, 0, oc, y, cons, al, et, nil)
		case "manylines": // header lines without end
			head := "DESCRIBE rtsp://h/a RTSP/1.0\r\nCSeq: 1\r\n"
			oc, y, cons, al, et := runGuarded([]byte(head), func(cr *chunkReader) func([]byte) (int, error) {
				line := []byte("X-A: b\r\n")
				return func(p []byte) (int, error) {
					if cr.budget >= 8<<20 {
						return 0, fmt.Errorf("harness: 8 MiB of filler delivered and still reading")
					}
					n := 0
					for n+len(line) <= len(p) {
						n += copy(p[n:], line)
					}
					cr.budget += n
					return n, nil
				}
			}, 3)
			emit(tid, c, 0, oc, y, cons, al, et, nil)
		case "biglength": // a Content-Length nobody can mean, followed by a few bytes and the end of the stream
			head := "ANNOUNCE rtsp://h/a RTSP/1.0\r\nCSeq: 1\r\nContent-Length: " + c.Val + "\r\n\r\nv=0\r\n"
			if c.Base.K == "resp" {
				head = "RTSP/1.0 200 OK\r\nCSeq: 1\r\nContent-Length: " + c.Val + "\r\n\r\nv=0\r\n"
			}
			oc, y, cons, al, et := runGuarded([]byte(head), nil, 3)
			emit(tid, c, 0, oc, y, cons, al, et, nil)
		case "garbage":
			var seed int64
			fmt.Sscanf(c.Val, "%d", &seed)
			r2 := rand.New(rand.NewSource(seed*7919 + vio.Seed()))
			data := make([]byte, 1+r2.Intn(600))
			r2.Read(data)
			switch seed % 4 {
			case 1:
				data[0] = '$'
			case 2:
				copy(data, "RTSP")
			case 3:
				for i := range data {
					data[i] = "ABCDEFGHIJ :/\r\n$*.0123456789"[int(data[i])%28]
				}
			}
			oc, y, cons, al, et := runGuarded(data, nil, 700)
			emit(tid, c, 0, oc, y, cons, al, et, nil)
		case "shortrtp": // a frame on an RTP channel that is too short for an RTP header, then a good message
			var b bytes.Buffer
			n := 0
			fmt.Sscanf(c.Val, "%d", &n)
			b.Write([]byte{'$', byte(chanCfg[0]), 0, byte(n)})
			b.Write(bytes.Repeat([]byte{0x80}, n))
			fl := b.Len()
			b.Write(good)
			cr := &chunkReader{data: b.Bytes()}
			br := bufio.NewReader(cr)
			h := &handler{br: br, cr: cr}
			err1 := srtsp.VerifReceive(br, chanCfg, h)
			p1 := h.pos()
			err2 := srtsp.VerifReceive(br, chanCfg, h)
			oc := "error"
			if err1 == nil {
				oc = "yield"
			}
			emit(tid, c, 0, oc, len(h.got), p1, 0, fmt.Sprint(err1), map[string]interface{}{"next_ok": err2 == nil && len(h.got) >= 1 && h.got[len(h.got)-1].Kind == "req", "framelen": fl})
		}
	}
	_ = binary.BigEndian
	vio.WriteJSON(t, "VERIF_OUT2", map[string]interface{}{"cases": len(cases), "runs": runs})
}
