CONSTANTS Recover = "once"
 MaxLen = 4
 Streams = {a, b}
INIT Init
NEXT Next
INVARIANTS Survives GoodConverted
CHECK_DEADLOCK FALSE
