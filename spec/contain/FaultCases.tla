------------------------------- MODULE FaultCases -------------------------------
(* C07 - the malformed inputs: what is damaged (target), how (fault, with a variant), in which codec, and where in an
   otherwise valid stream it is placed.  "every" variants are expanded by the driver to every offset / length. *)
EXTENDS Naturals, Sequences, FiniteSets, TLC, Json
Codecs == {"h264", "h265", "h264n", "h265n"}      \* n: the SDP carries no parameter sets, they arrive in band
Base(c) == IF c \in {"h264", "h264n"} THEN "h264" ELSE "h265"
Places == {"first", "mid", "burst"}        \* before any good packet | after the first group of pictures | three copies in mid stream
VideoFaults(c) ==
   IF Base(c) = "h264"
   THEN {[fault |-> "empty", v |-> 0]} \cup {[fault |-> "nalhdr-only", v |-> t] : t \in {0, 1, 5, 7, 8, 24, 25, 26, 27, 28, 29, 30, 31}}
        \cup {[fault |-> f, v |-> 0] : f \in {"stapa-size-beyond", "stapa-size-zero", "stapa-trailing-byte", "stapa-truncate-every",
                                              "fua-header-only", "fua-start-empty", "fua-end-without-start", "fua-truncate-every", "fua-unfinished",
                                              "single-truncate-every", "flip-every", "huge", "paramset-truncate-every", "paramset-garbage", "paramset-short"}}
   ELSE {[fault |-> "empty", v |-> 0], [fault |-> "one-byte", v |-> 0]} \cup {[fault |-> "nalhdr-only", v |-> t] : t \in {1, 19, 32, 33, 34, 48, 49, 50, 51, 63}}
        \cup {[fault |-> f, v |-> 0] : f \in {"ap-size-beyond", "ap-size-zero", "ap-trailing-byte", "ap-truncate-every",
                                              "fu-header-only", "fu-start-empty", "fu-end-without-start", "fu-truncate-every", "fu-unfinished",
                                              "single-truncate-every", "flip-every", "huge", "paramset-truncate-every", "paramset-garbage", "paramset-short"}}
AudioFaults == {[fault |-> f, v |-> 0] : f \in {"empty", "one-byte", "auhdr-len-zero", "auhdr-len-odd", "auhdr-len-beyond", "au-size-beyond",
                                                "au-size-zero", "au-many", "truncate-every", "flip-every"}}
RtcpFaults == {[fault |-> f, v |-> 0] : f \in {"empty", "one-byte", "sr-truncate-every", "rr", "bye", "random", "sr-zero-rtptime"}}
RtpHdrFaults == {[fault |-> f, v |-> 0] : f \in {"padding-beyond", "extension-beyond", "csrc-beyond"}}
Cases == {[codec |-> c, target |-> "video", fault |-> f.fault, v |-> f.v, place |-> p] : c \in Codecs, f \in UNION {VideoFaults(x) : x \in Codecs}, p \in Places}
   \cup {[codec |-> c, target |-> "audio", fault |-> f.fault, v |-> f.v, place |-> p] : c \in Codecs, f \in AudioFaults, p \in Places}
   \cup {[codec |-> c, target |-> t, fault |-> f.fault, v |-> f.v, place |-> p] : c \in Codecs, t \in {"vrtcp", "artcp"}, f \in RtcpFaults, p \in Places}
   \cup {[codec |-> c, target |-> t, fault |-> f.fault, v |-> f.v, place |-> p] : c \in Codecs, t \in {"video", "audio"}, f \in RtpHdrFaults, p \in Places}
OK(x) == x.target # "video" \/ [fault |-> x.fault, v |-> x.v] \in VideoFaults(x.codec) \/ [fault |-> x.fault, v |-> x.v] \in RtpHdrFaults
VARIABLE c
Init == c \in {x \in Cases : OK(x)}
Next == UNCHANGED c
Emit == PrintT(<<"@F", ToJson(c)>>)
================================================================================
