------------------------------- MODULE HostileCases -------------------------------
(* C07 - hostile session descriptions (given to media.NewStream as an ANNOUNCE or a pulled camera's DESCRIBE answer
   would) and hostile bytes on an established publishing connection. *)
EXTENDS Naturals, Sequences, FiniteSets, TLC, Json
SdpClasses == {"empty", "garbage", "no-media", "missing-version", "video-no-rtpmap", "video-no-format", "fmtp-garbage", "sprop-empty",
               "sprop-one-set", "sprop-not-base64", "sprop-garbage-base64", "sprop-one-byte", "hevc-sprop-garbage", "hevc-sprop-missing",
               "config-odd-hex", "config-garbage", "config-empty", "audio-zero-rate", "unknown-codec", "thousand-media", "long-line",
               "nul-bytes", "negative-numbers", "huge-numbers", "audio-only", "lf-only", "valid"}
SessionClasses == {"announce-garbage-sdp", "announce-empty-sdp", "announce-thousand-media", "frame-unknown-channel", "frame-short-rtp",
                   "frame-empty-video", "frame-empty-rtcp", "frame-rtcp-garbage", "frame-stapa-truncated", "frame-aac-truncated",
                   "garbage-bytes", "frame-length-beyond-then-silence"}
VARIABLE c
Init == \/ \E k \in SdpClasses : c = [kind |-> "sdp", class |-> k]
        \/ \E k \in SessionClasses : c = [kind |-> "session", class |-> k]
Next == UNCHANGED c
Emit == PrintT(<<"@H", ToJson(c)>>)
================================================================================
