CONSTANTS Recover = "none"
 MaxLen = 4
 Streams = {a, b}
INIT Init
NEXT Next
INVARIANTS Survives GoodConverted NoGoroutineGivesUp
CHECK_DEADLOCK FALSE
