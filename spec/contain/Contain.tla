------------------------------- MODULE Contain -------------------------------
(* C07 - containment of malformed media input, as a design: a stream's packets go through independent stages

     relay   media.Stream.WriteRtpPacket -> RTP consumers                     (publisher's goroutine)
     demux   rtp.Demuxer.process         -> frames        (own goroutine, queue in front)
     flv     flv.Muxer.process           -> FLV tags      (own goroutine, queue in front)
     ts      mpegts.Muxer.process        -> HLS segments  (own goroutine, queue in front)

   An item is good or malformed.  A malformed item makes the stage that parses it fail (index out of range, nil
   dereference): what happens then is the design decision this module is about.
     Recover = "item"     the failure is caught around the one item; the stage goes on        (repository after the fix)
     Recover = "once"     the failure is caught by the goroutine's deferred recover, which ends the goroutine:
                          everything queued later is never converted                              (as found)
     Recover = "none"     the failure kills the process
   Two streams share the process.  Properties: Survives (no crash), GoodConverted (every good item of either
   stream comes out of every stage once everything has been processed), OthersUndisturbed. *)
EXTENDS Naturals, Sequences, FiniteSets, TLC
CONSTANTS Recover, MaxLen, Streams

Items == {"good", "bad"}
Stages == <<"relay", "demux", "flv", "ts">>
VARIABLES input,   \* stream -> sequence of items still to be written by the publisher
          written, \* stream -> items written so far
          queue,   \* stream -> stage -> queued item indexes
          alive,   \* stream -> stage -> goroutine still running
          out,     \* stream -> stage -> set of item indexes that came out
          crashed
vars == <<input, written, queue, alive, out, crashed>>
Conv == {"demux", "flv", "ts"}
Init == /\ input \in [Streams -> UNION {[1..n -> Items] : n \in 0..MaxLen}]
        /\ written = [s \in Streams |-> <<>>]
        /\ queue = [s \in Streams |-> [g \in Conv |-> <<>>]]
        /\ alive = [s \in Streams |-> [g \in Conv |-> TRUE]]
        /\ out = [s \in Streams |-> [g \in Conv \cup {"relay"} |-> {}]]
        /\ crashed = FALSE
\* the publisher writes the next packet: it is relayed as it is (no parsing) and queued for the demuxer
Write(s) == /\ ~crashed /\ input[s] # <<>>
            /\ LET i == Len(written[s]) + 1 IN
               /\ written' = [written EXCEPT ![s] = Append(@, Head(input[s]))]
               /\ input' = [input EXCEPT ![s] = Tail(@)]
               /\ out' = [out EXCEPT ![s]["relay"] = @ \cup {i}]
               /\ queue' = [queue EXCEPT ![s]["demux"] = Append(@, i)]
            /\ UNCHANGED <<alive, crashed>>
\* a converter takes the next queued item; a malformed item fails in the demuxer (the first stage that parses it)
Step(s, g) ==
    /\ ~crashed /\ alive[s][g] /\ queue[s][g] # <<>>
    /\ LET i == Head(queue[s][g]) bad == written[s][i] = "bad" /\ g = "demux" IN
       /\ queue' = [queue EXCEPT ![s][g] = Tail(@),
                                 ![s]["flv"] = IF g = "demux" /\ ~bad THEN Append(@, i) ELSE @,
                                 ![s]["ts"] = IF g = "demux" /\ ~bad THEN Append(@, i) ELSE @]
       /\ out' = IF bad THEN out ELSE [out EXCEPT ![s][g] = @ \cup {i}]
       /\ alive' = IF bad /\ Recover = "once" THEN [alive EXCEPT ![s][g] = FALSE] ELSE alive
       /\ crashed' = (bad /\ Recover = "none")
    /\ UNCHANGED <<input, written>>
Next == \E s \in Streams : Write(s) \/ \E g \in Conv : Step(s, g)
Spec == Init /\ [][Next]_vars /\ WF_vars(Next)

Quiet == \A s \in Streams : input[s] = <<>> /\ \A g \in Conv : (queue[s][g] = <<>> \/ ~alive[s][g])
Good(s) == {i \in 1..Len(written[s]) : written[s][i] = "good"}
Survives == ~crashed
GoodConverted == Quiet => \A s \in Streams : \A g \in Conv \cup {"relay"} : Good(s) \subseteq out[s][g]
NoGoroutineGivesUp == \A s \in Streams : \A g \in Conv : alive[s][g]
=============================================================================
