INIT Init
NEXT Next
INVARIANTS Emit
CHECK_DEADLOCK FALSE
