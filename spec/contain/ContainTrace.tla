---------------------------------- MODULE ContainTrace ------------------------------
(* C07 - acceptor for what the drivers observed around an injected malformed input (trace validation; env VERIF_TRACE).
     [e |-> "case", t, case, injected (number of malformed packets written),
            relay_want, relay_got      good packets written after the injection / of those, received by the RTP consumer of the same stream
            flv_want, flv_got          good frames after the injection / of those, found as FLV tags by an FLV consumer
            hls_want, hls_got          good video frames after the injection that lie in segments which must be complete / found there
            other_want, other_got      the same three summed for a second stream in the same process that got only good packets
            write_panic                the publisher's call (WriteRtpPacket) panicked
     [e |-> "sdp", t, class, outcome ("ok"|"nil"|"panic: .."|"stuck"), relays]      a stream created from a hostile SDP
     [e |-> "session", t, class, server_alive, other_session_ok, closed_or_answered, framed, stream_continues]  hostile bytes on an RTSP connection
        (framed: they were one well-framed interleaved frame; stream_continues: a consumer of the stream was handed the good packet sent after them)
     [e |-> "leak", t, goroutines_before, goroutines_after, blocked (ipchub goroutines still there after every stream was closed)]  *)
EXTENDS Integers, Sequences, FiniteSets, TLC, Json, IOUtils
Trace == ndJsonDeserialize(IOEnv.VERIF_TRACE)
VARIABLES l
Init == l = 0
Bad(e, why) == PrintT(<<"@BAD", ToJson([line |-> l', t |-> e.t, why |-> why, ev |-> e])>>)
Ok(cond, e, why) == IF cond THEN TRUE ELSE Bad(e, why)
Next ==
  /\ l < Len(Trace) /\ l' = l + 1
  /\ LET e == Trace[l'] IN
     CASE e.e = "case" ->
            /\ Ok(~e.write_panic, e, "C07:malformed-packet-panics-in-the-publisher's-goroutine")
            /\ Ok(e.relay_got = e.relay_want, e, "C07:stream-stops-relaying-rtp-after-malformed-input")
            /\ Ok(e.flv_got = e.flv_want, e, "C07:stream-stops-producing-flv-after-malformed-input")
            /\ Ok(e.hls_got = e.hls_want, e, "C07:stream-stops-producing-hls-after-malformed-input")
            /\ Ok(e.other_got = e.other_want, e, "C07:another-stream-is-disturbed")
       [] e.e = "sdp" ->
            /\ Ok(e.outcome \in {"ok", "nil"}, e, "C07:hostile-sdp-panics-or-hangs")
            /\ Ok(e.outcome # "ok" \/ e.relays, e, "C07:stream-from-hostile-sdp-does-not-relay")
       [] e.e = "session" ->
            /\ Ok(e.server_alive /\ e.other_session_ok, e, "C07:hostile-connection-disturbs-the-server-or-another-session")
            /\ Ok(e.closed_or_answered, e, "C07:hostile-connection-leaves-the-session-hanging")
            \* a well-framed interleaved frame, whatever it carries: the stream goes on relaying what follows it
            /\ Ok(~e.framed \/ e.stream_continues, e, "C07:stream-does-not-continue-after-a-hostile-frame")
       [] e.e = "leak" -> Ok(e.blocked = 0, e, "C07:goroutines-left-hanging-after-the-streams-were-closed")
AllConsumed == TLCGet("stats").diameter = Len(Trace) + 1
================================================================================
