CONSTANTS MaxHist = 9
 EmitAt = 9
INIT Init
NEXT Next
INVARIANTS Emit MatchSound MatchComplete
CHECK_DEADLOCK FALSE
