CONSTANT Atomic = TRUE
INIT Init
NEXT Next
INVARIANTS Intact Done
CHECK_DEADLOCK FALSE
