CONSTANT Atomic = FALSE
INIT Init
NEXT Next
INVARIANTS Done
CHECK_DEADLOCK FALSE
