CONSTANTS MaxHist = 2
 EmitAt = 2
INIT Init
NEXT Next
INVARIANTS Emit OneEntryPerKey FlushThenRestartIsIdentity
CHECK_DEADLOCK FALSE
