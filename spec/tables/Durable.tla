-------------------------------- MODULE Durable --------------------------------
(* C18, crash half.  The file-system steps of one flush of a table file
   (utils/io.go: EncodeJSONFile), a crash after any of them, and what a restart
   then finds.  Atomic = FALSE is the step sequence of the code as found
   (open with truncation, write, sync, close); Atomic = TRUE is write-to-
   temporary, sync, close, rename.  main / tmp are abstract file contents.    *)
EXTENDS Naturals, Sequences, TLC, Json
CONSTANT Atomic

VARIABLES main, tmp, pc, crashed, hist
vars == <<main, tmp, pc, crashed, hist>>

Contents == {"old", "empty", "partial", "new", "absent"}

Init == /\ main \in {"old", "absent"}     \* flush over an existing file, or the very first flush
        /\ tmp = "absent" /\ pc = "start" /\ crashed = FALSE /\ hist = <<>>

Do(step, nextpc) == pc' = nextpc /\ hist' = Append(hist, step) /\ crashed' = FALSE

(* --- in-place sequence ---------------------------------------------------- *)
IOpen    == ~Atomic /\ pc = "start"   /\ main' = "empty"   /\ tmp' = tmp /\ Do("json.opened", "opened")
IPartial == ~Atomic /\ pc = "opened"  /\ main' = "partial" /\ tmp' = tmp /\ Do("json.write", "partial")
IWrite   == ~Atomic /\ pc = "partial" /\ main' = "new"     /\ tmp' = tmp /\ Do("json.written", "written")
ISync    == ~Atomic /\ pc = "written" /\ UNCHANGED <<main, tmp>>        /\ Do("json.synced", "synced")
IClose   == ~Atomic /\ pc = "synced"  /\ UNCHANGED <<main, tmp>>        /\ Do("json.closed", "done")
(* --- write-temporary-then-rename sequence --------------------------------- *)
AOpen    == Atomic /\ pc = "start"   /\ tmp' = "empty"   /\ main' = main /\ Do("json.opened", "opened")
APartial == Atomic /\ pc = "opened"  /\ tmp' = "partial" /\ main' = main /\ Do("json.write", "partial")
AWrite   == Atomic /\ pc = "partial" /\ tmp' = "new"     /\ main' = main /\ Do("json.written", "written")
ASync    == Atomic /\ pc = "written" /\ UNCHANGED <<main, tmp>>         /\ Do("json.synced", "synced")
AClose   == Atomic /\ pc = "synced"  /\ UNCHANGED <<main, tmp>>         /\ Do("json.closed", "closed")
ARename  == Atomic /\ pc = "closed"  /\ main' = tmp /\ tmp' = "absent"  /\ Do("json.renamed", "done")

(* the process dies right after the last step taken (or before the first)     *)
Crash == /\ ~crashed /\ pc # "crashed"
         /\ crashed' = TRUE /\ pc' = "crashed" /\ UNCHANGED <<main, tmp, hist>>
         /\ PrintT(<<"@K", ToJson([steps |-> hist, first |-> (hist = <<>>),
                                   expect_main |-> main])>>)

Next == IOpen \/ IPartial \/ IWrite \/ ISync \/ IClose
        \/ AOpen \/ APartial \/ AWrite \/ ASync \/ AClose \/ ARename \/ Crash

(* "the file on disk afterwards is either the complete previous table or the
   complete new one - never empty, truncated or mixed"  (absent = the previous
   table when there was no file before)                                        *)
Intact == crashed => main \in {"old", "new", "absent"}
(* a completed flush leaves the new table *)
Done == pc = "done" => main = "new"
================================================================================
