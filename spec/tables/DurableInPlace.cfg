CONSTANT Atomic = FALSE
INIT Init
NEXT Next
INVARIANTS Intact Done
CHECK_DEADLOCK FALSE
