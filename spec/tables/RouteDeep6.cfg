CONSTANTS MaxHist = 6
 EmitAt = 6
 Spellings <- SpellingsDeep
 Urls <- UrlsDeep
 KAs <- KAsDeep
INIT Init
NEXT Next
INVARIANTS Emit MatchSound MatchComplete
CHECK_DEADLOCK FALSE
