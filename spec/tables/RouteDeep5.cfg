CONSTANTS MaxHist = 5
 EmitAt = 5
 Spellings <- SpellingsDeep
 Urls <- UrlsDeep
 KAs <- KAsDeep
INIT Init
NEXT Next
INVARIANTS Emit MatchSound MatchComplete
CHECK_DEADLOCK FALSE
