CONSTANTS MaxHist = 5
 EmitAt = 5
 NameSpellings <- NameSpellingsDeep
 Pulls <- PullsDeep
 Admins <- AdminsDeep
INIT Init
NEXT Next
INVARIANTS Emit OneEntryPerKey FlushThenRestartIsIdentity
CHECK_DEADLOCK FALSE
