------------------------------- MODULE RouteTable ------------------------------
(* C17 (and the route half of C18): the route table as the statement describes
   it.  tab maps canonical patterns to a route or None; hist is the operation
   history together with the table expected after each operation, so that a
   behaviour printed by TLC can be replayed on provider/route and compared
   step by step.                                                              *)
EXTENDS Str, FiniteSets, TLC, Json
CONSTANTS MaxHist, EmitAt

None == [none |-> TRUE]

(* pattern spellings offered to Save/Del (non-canonical ones included)        *)
SpellingsAll == { <<"/","a">>, <<"/","a","/">>, <<"/","a","/","b","/">>, <<"/","a","/","b">>,
               <<"/">>, <<"A","/">>, <<" ","/","a","/","/","B","/"," ">> }
UrlsAll == { <<"r",":","/","/","h","/","x">>, <<"r",":","/","/","h","/","x","/">>, <<"r",":","/","/","g">> }
(* overridable in a cfg (Spellings <- SpellingsDeep): one pattern, two urls, so that
   much longer histories can be enumerated exhaustively                       *)
Spellings == SpellingsAll
Urls == UrlsAll
KAs == BOOLEAN
SpellingsDeep == { <<"/","a","/">> }
UrlsDeep == { <<"r",":","/","/","h","/","x">>, <<"r",":","/","/","g">> }
KAsDeep == {FALSE}
(* request paths *)
Reqs == { <<"/","a">>, <<"/","a","/","b">>, <<"/","a","/","b","/","c">>, <<"/","a","/","c">>,
          <<"/","b">>, <<"/","a","/">>, <<"/","a","/","b","/","c","/","d">>, <<"A","/","B","/","C">>,
          <<"/","a","b">>, <<"/","a","/","b","c">>, <<" ","a","/","/","c"," ">>, <<"/">> }

Pats == {Canon(s) : s \in Spellings}

VARIABLES tab, disk, hist
vars == <<tab, disk, hist>>

Present(t) == {k \in Pats : t[k] # None}

(* ---- the statement ------------------------------------------------------ *)
JoinURL(u, rest) == IF u[Len(u)] = "/" THEN u \o rest ELSE u \o <<"/">> \o rest

Match(t, path) ==
  LET cp == Canon(path) IN
  IF cp[Len(cp)] = "/" THEN None                          \* "a path that itself ends in '/' resolves to nothing"
  ELSE IF cp \in Present(t) THEN [pattern |-> cp, url |-> t[cp].url, ka |-> t[cp].ka]   \* exact
  ELSE LET dirs == {k \in Present(t) : k[Len(k)] = "/" /\ IsPrefix(k, cp)} IN
       IF dirs = {} THEN None
       ELSE LET k == CHOOSE k \in dirs : \A j \in dirs : Len(j) <= Len(k) IN     \* longest directory prefix
            [pattern |-> cp,                                                        \* published under the requested path
             url |-> JoinURL(t[k].url, SubSeq(cp, Len(k) + 1, Len(cp))),         \* exactly one '/' between them
             ka |-> t[k].ka]

Image(t) == {[pattern |-> k, url |-> t[k].url, ka |-> t[k].ka] : k \in Present(t)}

(* ---- operations ---------------------------------------------------------- *)
Save(s, u, ka) ==
  /\ disk' = disk
  /\ tab' = [tab EXCEPT ![Canon(s)] = [url |-> u, ka |-> ka]]
  /\ hist' = Append(hist, [op |-> "save", pattern |-> s, url |-> u, ka |-> ka, table |-> Image(tab'), disk |-> Image(disk')])
Del(s) ==
  /\ disk' = disk
  /\ tab' = IF Canon(s) \in Pats THEN [tab EXCEPT ![Canon(s)] = None] ELSE tab
  /\ hist' = Append(hist, [op |-> "del", pattern |-> s, url |-> <<>>, ka |-> FALSE, table |-> Image(tab'), disk |-> Image(disk')])

\* an edit that the table refuses (a target URL that does not parse) is not an edit: nothing changes, also when the
\* pattern exists already (an update is validated before it is applied)
SaveBad(s, ka) ==
  /\ disk' = disk /\ tab' = tab
  /\ hist' = Append(hist, [op |-> "savebad", pattern |-> s, url |-> <<>>, ka |-> ka, table |-> Image(tab'), disk |-> Image(disk')])

(* "after a flush a restarted server loads exactly that table" (C18)          *)
Flush ==
  /\ disk' = tab /\ tab' = tab
  /\ hist' = Append(hist, [op |-> "flush", pattern |-> <<>>, url |-> <<>>, ka |-> FALSE, table |-> Image(tab'), disk |-> Image(disk')])
Restart ==
  /\ tab' = disk /\ disk' = disk
  /\ hist' = Append(hist, [op |-> "restart", pattern |-> <<>>, url |-> <<>>, ka |-> FALSE, table |-> Image(tab'), disk |-> Image(disk')])

Init == tab = [k \in Pats |-> None] /\ disk = tab /\ hist = <<>>
Next == /\ Len(hist) < MaxHist
        /\ \/ \E s \in Spellings, u \in Urls, ka \in KAs : Save(s, u, ka)
           \/ \E s \in Spellings : Del(s)
           \/ \E s \in Spellings : SaveBad(s, TRUE)
           \/ Flush
           \/ Restart

(* printed once per distinct state of the chosen length: history + every lookup *)
Emit == (Len(hist) >= EmitAt) =>
          PrintT(<<"@H", ToJson([hist |-> hist,
                                  match |-> {[req |-> r, res |-> Match(tab, r)] : r \in Reqs}])>>)

(* ---- properties of the specification itself ----------------------------- *)
(* a lookup result is never a table entry's pattern unless exact; the result's
   url always starts with the url of some present route                        *)
MatchSound == \A r \in Reqs : LET m == Match(tab, r) IN
                 m # None => /\ m.pattern = Canon(r)
                             /\ \E k \in Present(tab) : IsPrefix(tab[k].url, m.url) /\ (k = Canon(r) \/ (k[Len(k)] = "/" /\ IsPrefix(k, Canon(r))))
MatchComplete == \A r \in Reqs : (Match(tab, r) = None) =>
                    \/ Canon(r)[Len(Canon(r))] = "/"
                    \/ /\ Canon(r) \notin Present(tab)
                       /\ ~ \E k \in Present(tab) : k[Len(k)] = "/" /\ IsPrefix(k, Canon(r))
================================================================================
