------------------------------- MODULE UserTable -------------------------------
(* C18, user half: the user table is the fold of the operation history.
   "update keeps the password unless asked to change it, names ... are
   canonicalised, delete then re-create leaves one entry", "after a flush a
   restarted server loads exactly that table".                                *)
EXTENDS Naturals, Sequences, FiniteSets, TLC, Json
CONSTANTS MaxHist, EmitAt

None == [none |-> TRUE]
NameSpellingsAll == {"A", "a", "b"}
NameSpellings == NameSpellingsAll
NameSpellingsDeep == {"a"}
LowerN(n) == CASE n = "A" -> "a" [] OTHER -> n
Keys == {LowerN(n) : n \in NameSpellings} \cup {"admin"}
Pws == {"p1", "p2"}
PullsAll == {"", "/a/*"}
Pulls == PullsAll
PullsDeep == {""}
Admins == BOOLEAN
AdminsDeep == {FALSE}

(* an administrator with an empty right gets '*' (C16) - the stored right is
   compared modulo that                                                       *)
NormRight(admin, r) == IF admin /\ r = "" THEN "*" ELSE r
Entry(pw, admin, pull, push) == [pw |-> pw, admin |-> admin, pull |-> NormRight(admin, pull), push |-> NormRight(admin, push)]

(* a server started without a users file has the default administrator       *)
Default == [k \in Keys |-> IF k = "admin" THEN Entry("admin", TRUE, "", "") ELSE None]

VARIABLES tab, disk, hist
vars == <<tab, disk, hist>>
Image(t) == {[name |-> k, pw |-> t[k].pw, admin |-> t[k].admin, pull |-> t[k].pull, push |-> t[k].push] : k \in {k \in Keys : t[k] # None}}

Step(rec) == hist' = Append(hist, rec @@ [table |-> Image(tab'), disk |-> Image(disk')])

Save(n, pw, admin, pull, upd) ==
  LET k == LowerN(n)
      old == tab[k]
      newpw == IF old # None /\ ~upd THEN old.pw ELSE pw
  IN /\ tab' = [tab EXCEPT ![k] = Entry(newpw, admin, pull, "")]
     /\ disk' = disk
     /\ Step([op |-> "save", name |-> n, pw |-> pw, admin |-> admin, pull |-> pull, upd |-> upd])
Del(n) ==
  /\ tab' = [tab EXCEPT ![LowerN(n)] = None]
  /\ disk' = disk
  /\ Step([op |-> "del", name |-> n, pw |-> "", admin |-> FALSE, pull |-> "", upd |-> FALSE])
Flush ==
  /\ disk' = tab /\ tab' = tab
  /\ Step([op |-> "flush", name |-> "", pw |-> "", admin |-> FALSE, pull |-> "", upd |-> FALSE])
Restart ==
  /\ tab' = disk /\ disk' = disk
  /\ Step([op |-> "restart", name |-> "", pw |-> "", admin |-> FALSE, pull |-> "", upd |-> FALSE])

Init == tab = Default /\ disk = Default /\ hist = <<>>
Next == /\ Len(hist) < MaxHist
        /\ \/ \E n \in NameSpellings, pw \in Pws, admin \in Admins, pull \in Pulls, upd \in BOOLEAN : Save(n, pw, admin, pull, upd)
           \/ \E n \in NameSpellings \cup {"admin"} : Del(n)
           \/ Flush
           \/ Restart
Emit == (Len(hist) >= EmitAt) => PrintT(<<"@H", ToJson([hist |-> hist])>>)

(* properties of the specification itself *)
OneEntryPerKey == \A k \in Keys : tab[k] # None => Cardinality({e \in Image(tab) : e.name = k}) = 1
FlushThenRestartIsIdentity == (hist # <<>> /\ hist[Len(hist)].op = "flush") => disk = tab
================================================================================
