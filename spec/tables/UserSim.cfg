CONSTANTS MaxHist = 9
 EmitAt = 9
INIT Init
NEXT Next
INVARIANTS Emit OneEntryPerKey FlushThenRestartIsIdentity
CHECK_DEADLOCK FALSE
