CONSTANTS MaxHist = 3
 EmitAt = 3
INIT Init
NEXT Next
INVARIANTS Emit MatchSound MatchComplete
CHECK_DEADLOCK FALSE
