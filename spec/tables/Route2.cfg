CONSTANTS MaxHist = 2
 EmitAt = 2
INIT Init
NEXT Next
INVARIANTS Emit MatchSound MatchComplete
CHECK_DEADLOCK FALSE
