CONSTANTS MaxHist = 4
 EmitAt = 4
 NameSpellings <- NameSpellingsDeep
 Pulls <- PullsDeep
 Admins <- AdminsDeep
INIT Init
NEXT Next
INVARIANTS Emit OneEntryPerKey FlushThenRestartIsIdentity
CHECK_DEADLOCK FALSE
