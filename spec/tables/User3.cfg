CONSTANTS MaxHist = 3
 EmitAt = 3
INIT Init
NEXT Next
INVARIANTS Emit OneEntryPerKey FlushThenRestartIsIdentity
CHECK_DEADLOCK FALSE
