CONSTANTS MaxHist = 4
 EmitAt = 4
 Spellings <- SpellingsDeep
 Urls <- UrlsDeep
 KAs <- KAsDeep
INIT Init
NEXT Next
INVARIANTS Emit MatchSound MatchComplete
CHECK_DEADLOCK FALSE
