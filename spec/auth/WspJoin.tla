--------------------------------- MODULE WspJoin --------------------------------
(* C11 - the WSP channel pairing.  A control socket (opened by an authenticated user on a path he may pull) gets a
   channel id from INIT; a data socket presents a channel id in JOIN and becomes the session's media sink.  Ids come
   from a process-wide counter, so whoever holds one id knows its neighbours.

     Bind = "user+path"   JOIN is honoured only from the same user on the same path        (repository after b6695a6)
     Bind = "none"        any socket that names an existing channel is attached                 (as found)
     StoreFirst           the session is registered before INIT is answered (after 54d8ff5); otherwise a JOIN that
                          overtakes the registration is refused although it is legitimate (as found)

   Properties: OnlyOwnMedia (a data socket receives media of a path only if its user may pull that path),
   LegitimateJoinSucceeds (the owner's JOIN, sent after he received the INIT answer, is never refused). *)
EXTENDS Naturals, FiniteSets, TLC
CONSTANTS Users, Paths, Rights,      \* Rights: [Users -> SUBSET Paths]
          Bind, StoreFirst, MaxChan

VARIABLES next,      \* the id counter
          answered,  \* channel -> [user, path]   INIT answered: the client knows the id
          stored,    \* channel -> [user, path]   session registered in the server
          data,      \* channel -> user whose data socket is attached (or "none")
          refused    \* a legitimate JOIN was refused
vars == <<next, answered, stored, data, refused>>
Chans == 1..MaxChan
Init == next = 1 /\ answered = [c \in {} |-> 0] /\ stored = [c \in {} |-> 0] /\ data = [c \in {} |-> 0] /\ refused = FALSE
Put(f, k, v) == [x \in DOMAIN f \cup {k} |-> IF x = k THEN v ELSE f[x]]

\* a user opens a control socket on a path he may pull (the HTTP layer checks that) and sends INIT
InitAnswer(u, p) == /\ next <= MaxChan /\ p \in Rights[u]
                    /\ answered' = Put(answered, next, [user |-> u, path |-> p])
                    /\ stored' = (IF StoreFirst THEN Put(stored, next, [user |-> u, path |-> p]) ELSE stored)
                    /\ next' = next + 1 /\ UNCHANGED <<data, refused>>
Store(c) == /\ c \in DOMAIN answered /\ c \notin DOMAIN stored
            /\ stored' = Put(stored, c, answered[c]) /\ UNCHANGED <<next, answered, data, refused>>
\* a data socket, opened by user u on a path q he may pull, names channel c - any c: ids are guessable
Join(u, q, c) == /\ q \in Rights[u] /\ c \in DOMAIN answered
                 /\ IF c \in DOMAIN stored /\ (Bind = "none" \/ (stored[c].user = u /\ stored[c].path = q))
                    THEN data' = Put(data, c, u) /\ refused' = refused
                    ELSE /\ data' = data
                         /\ refused' = (refused \/ (answered[c].user = u /\ answered[c].path = q))
                 /\ UNCHANGED <<next, answered, stored>>
Next == \/ \E u \in Users, p \in Paths : InitAnswer(u, p)
        \/ \E c \in Chans : Store(c)
        \/ \E u \in Users, q \in Paths, c \in Chans : Join(u, q, c)

\* the session plays the path of its control socket; whoever's data socket is attached receives that media
OnlyOwnMedia == \A c \in DOMAIN data : stored[c].path \in Rights[data[c]]
LegitimateJoinSucceeds == ~refused
=================================================================================
