---------------------------------- MODULE Auth ---------------------------------
(* C11 - the reference monitor of the statement.  "media of a path is delivered
   ... only to a caller authenticated as a user whose CURRENT pull rights cover
   exactly that stream's path, a stream is published ... only by a user whose
   current push rights cover it, and management API calls succeed only for
   administrators, while invalid, expired, superseded or refresh-only tokens and
   wrong digest responses are refused ... callers who do hold the right are not
   refused".

   Static users: adm (administrator), u2 with pull right "/b/*" .  u1 is created, updated,
   deleted; tokens of u1 are obtained, refreshed, expired.  After every history
   the decision for every request (entry point x user x credential x path) is
   part of the emitted behaviour.                                              *)
EXTENDS Naturals, Sequences, FiniteSets, TLC, Json
CONSTANTS MaxHist

PullPaths == {"/a/x", "/b/y"}
PushPaths == {"/a/p", "/b/p"}
PullRights == {"", "*", "/a/*", "/b/*", "/a/x"}
PushRights == {"", "/a/*", "/b/p"}
Covers(r, p) == \/ r = "*"
                \/ r = "/a/*" /\ p \in {"/a/x", "/a/p"}
                \/ r = "/b/*" /\ p \in {"/b/y", "/b/p"}
                \/ r = p
Eff(admin, r) == IF admin /\ r = "" THEN "*" ELSE r         \* an administrator with an empty right gets the star right (C16)
None == [none |-> TRUE]
U(admin, pull, push) == [admin |-> admin, pull |-> pull, push |-> push]
Static == [adm |-> U(TRUE, "", ""), u2 |-> U(FALSE, "/b/*", "")]

VARIABLES u1,      \* None or the record last saved for u1
          acc,     \* u1's most recent access token: "none" | "live" | "expired"
          old,     \* a superseded token pair of u1 exists (after a refresh)
          hist
vars == <<u1, acc, old, hist>>

User(n) == IF n = "u1" THEN u1 ELSE Static[n]

(* ---- decisions ------------------------------------------------------------- *)
HttpEntries == {"httpflv", "wsflv", "m3u8", "ts", "wsrtsp_play", "wsp_play"}
RtspCreds == {"valid", "wrong", "none"}
TokCreds == {"access", "refresh", "old", "garbage", "none"}
(* is the credential itself good? (tokens are only modelled for u1; adm and u2 log in freshly: access = live) *)
CredGood(n, c) ==
  CASE c = "valid" -> TRUE
    [] c = "access" -> IF n = "u1" THEN acc = "live" ELSE TRUE
    [] OTHER -> FALSE
CredExists(n, c) ==
  CASE c = "access" -> n # "u1" \/ acc # "none"
    [] c = "refresh" -> n # "u1" \/ acc # "none"
    [] c = "old" -> n = "u1" /\ old
    [] OTHER -> TRUE
Pull(n, p) == User(n) # None /\ Covers(Eff(User(n).admin, User(n).pull), p)
Push(n, p) == User(n) # None /\ Covers(Eff(User(n).admin, User(n).push), p)
Decide(e, n, c, p) ==
  CredGood(n, c) /\
  CASE e \in HttpEntries \cup {"rtsp_play"} -> Pull(n, p)
    [] e = "rtsp_publish" -> Push(n, p)
    [] e = "wsrtsp_publish" -> Push(n, p) /\ \E q \in PullPaths : Pull(n, q)   \* must first get a WebSocket at all
    [] e = "admin_api" -> User(n) # None /\ User(n).admin

Requests ==
  {[e |-> e, u |-> n, c |-> c, p |-> p, grant |-> Decide(e, n, c, p)] :
      e \in HttpEntries \cup {"admin_api"}, n \in {"adm", "u1", "u2"}, c \in TokCreds, p \in PullPaths}
  \cup {[e |-> "wsrtsp_publish", u |-> n, c |-> c, p |-> p, grant |-> Decide("wsrtsp_publish", n, c, p)] :
      n \in {"adm", "u1", "u2"}, c \in {"access"}, p \in PushPaths}
  \cup {[e |-> "rtsp_play", u |-> n, c |-> c, p |-> p, grant |-> Decide("rtsp_play", n, c, p)] :
      n \in {"adm", "u1", "u2"}, c \in RtspCreds, p \in PullPaths}
  \cup {[e |-> "rtsp_publish", u |-> n, c |-> c, p |-> p, grant |-> Decide("rtsp_publish", n, c, p)] :
      n \in {"adm", "u1", "u2"}, c \in RtspCreds, p \in PushPaths}
Applicable == {r \in Requests : CredExists(r.u, r.c)}

(* ---- history operations ------------------------------------------------------- *)
(* every operation also records what an RTSP connection of u1 that was opened (and authenticated) EARLIER must be
   answered when it asks again right after the operation: "decisions use the rights as last saved"          *)
Op(o) == hist' = Append(hist, o @@ [mid |-> [p \in PullPaths |-> (u1' # None /\ Covers(Eff(u1'.admin, u1'.pull), p))]])
Save(admin, pull, push) == /\ u1' = U(admin, pull, push) /\ UNCHANGED <<acc, old>>
                           /\ Op([op |-> "save", admin |-> admin, pull |-> pull, push |-> push])
Del == u1 # None /\ u1' = None /\ UNCHANGED <<acc, old>> /\ Op([op |-> "del", admin |-> FALSE, pull |-> "", push |-> ""])
Login == u1 # None /\ acc' = "live" /\ UNCHANGED <<u1, old>> /\ Op([op |-> "login", admin |-> FALSE, pull |-> "", push |-> ""])
Refresh == acc # "none" /\ acc' = "live" /\ old' = TRUE /\ UNCHANGED u1 /\ Op([op |-> "refresh", admin |-> FALSE, pull |-> "", push |-> ""])
Expire == acc = "live" /\ acc' = "expired" /\ UNCHANGED <<u1, old>> /\ Op([op |-> "expire", admin |-> FALSE, pull |-> "", push |-> ""])

Init == u1 = None /\ acc = "none" /\ old = FALSE /\ hist = <<>>
Next == /\ Len(hist) < MaxHist
        /\ \/ \E a \in BOOLEAN, pl \in PullRights, ps \in PushRights : Save(a, pl, ps)
           \/ Del \/ Login \/ Refresh \/ Expire

View == <<u1, acc, old>>
EmitEdge == PrintT(<<"@H", ToJson([hist |-> hist', reqs |-> Applicable'])>>)

(* the monitor never grants without a good credential, an existing user and a covering right *)
Sound == \A r \in Requests : r.grant => (CredGood(r.u, r.c) /\ User(r.u) # None)
================================================================================
