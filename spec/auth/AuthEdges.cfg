CONSTANTS MaxHist = 12
INIT Init
NEXT Next
VIEW View
INVARIANTS Sound
ACTION_CONSTRAINT EmitEdge
CHECK_DEADLOCK FALSE
