CONSTANTS Users = {"adm", "u2"}
 Paths = {"/a/x", "/b/y"}
 Rights <- RightsA
 Bind = "user+path"
 StoreFirst = FALSE
 MaxChan = 3
INIT Init
NEXT Next
INVARIANTS OnlyOwnMedia LegitimateJoinSucceeds
CHECK_DEADLOCK FALSE
