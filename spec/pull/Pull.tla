---------------------------------- MODULE Pull ---------------------------------
(* C20 - on-demand pull.  A request for a routed path makes the server connect
   to the camera and walk through OPTIONS, DESCRIBE, SETUP (video), SETUP
   (audio), PLAY; each camera answer is one of a finite set of kinds.  The
   model is the handshake automaton of service/rtsp/pull_client.go with the
   camera as environment; the statement's obligations are invariants:
     success  => stream registered under the requested path, relaying
     failure at any step or later => requester gets a not-found style answer
       (or an orderly close), nothing registered, the camera connection closed,
       the connection counter and goroutines back, consumers closed, and the
       next request connects afresh.
   Every behaviour (camera plan) is emitted with its expected outcome and
   replayed against a scripted camera.                                        *)
EXTENDS Naturals, Sequences, FiniteSets, TLC, Json

Steps == <<"OPTIONS", "DESCRIBE", "SETUP1", "SETUP2", "PLAY">>
(* how the camera answers a step *)
Good == {"ok", "basic", "digest"}                       \* 401 challenges are answered with the route URL's credentials
Bad == {"always401", "e404", "e500", "malformed", "silence", "reset", "eof", "digest-silence"}     \* the last: challenges, then never answers the authenticated request
(* what the camera does after a successful PLAY *)
After == {"stay", "disconnect", "silence", "garbage"}

VARIABLES step,      \* index of the step being answered (1..5), 6 = playing
          conn,      \* "none" | "open" | "closed": the server's connection to the camera
          registered,
          goroutine, \* the relay goroutine exists
          counter,   \* RTSP connection counter contribution of the pull
          outcome,   \* "pending" | "ok" | "notfound"
          plan       \* the camera's answers so far (sequence of kinds)
vars == <<step, conn, registered, goroutine, counter, outcome, plan>>

Init == step = 0 /\ conn = "none" /\ registered = FALSE /\ goroutine = FALSE /\ counter = 0 /\ outcome = "pending" /\ plan = <<>>

Connect == step = 0 /\ outcome = "pending"
           /\ \/ (conn' = "open" /\ step' = 1 /\ outcome' = outcome /\ plan' = plan)
              \/ (conn' = "none" /\ step' = 0 /\ outcome' = "notfound" /\ plan' = <<"refused">>)     \* camera not listening
           /\ UNCHANGED <<registered, goroutine, counter>>
Answer(k) ==
  /\ step \in 1..5 /\ outcome = "pending" /\ conn = "open"
  /\ plan' = Append(plan, k)
  /\ IF k \in Good
     THEN IF step < 5 THEN step' = step + 1 /\ UNCHANGED <<conn, registered, goroutine, counter, outcome>>
          ELSE step' = 6 /\ registered' = TRUE /\ goroutine' = TRUE /\ counter' = 1 /\ outcome' = "ok" /\ conn' = conn
     ELSE (* any failure: disconnect, report not found *)
          step' = step /\ conn' = "closed" /\ outcome' = "notfound" /\ UNCHANGED <<registered, goroutine, counter>>
AfterPlay(a) ==
  /\ step = 6 /\ outcome = "ok" /\ registered
  /\ plan' = Append(plan, a)
  /\ IF a = "stay" THEN UNCHANGED <<step, conn, registered, goroutine, counter, outcome>>
     ELSE step' = 7 /\ conn' = "closed" /\ registered' = FALSE /\ goroutine' = FALSE /\ counter' = 0 /\ outcome' = outcome
Next == Connect \/ (\E k \in Good \cup Bad : Answer(k)) \/ (\E a \in After : AfterPlay(a) /\ Len(plan) = 5)

Done == outcome = "notfound" \/ (step \in {6, 7} /\ Len(plan) = 6)
(* ---- the statement ---------------------------------------------------------- *)
FailureLeavesNothing == outcome = "notfound" => (~registered /\ ~goroutine /\ counter = 0 /\ conn # "open")
SuccessRegisters == (outcome = "ok" /\ step = 6) => (registered /\ conn = "open")
EndOfPlayCleans == step = 7 => (~registered /\ ~goroutine /\ counter = 0 /\ conn = "closed")
(* a second step may only be a challenge kind once: plans with two challenges are fine, the client re-authenticates *)
Emit == Done => PrintT(<<"@P", ToJson([plan |-> plan, outcome |-> outcome, registered |-> registered, ended |-> (step = 7)])>>)
================================================================================
