INIT Init
NEXT Next
INVARIANTS FailureLeavesNothing SuccessRegisters EndOfPlayCleans Emit
CHECK_DEADLOCK FALSE
