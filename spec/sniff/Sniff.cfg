CONSTANTS N = 20
 D1 = 16
 D2 = 8
 SegSizes = {1, 2, 7, 8, 9, 15, 16, 17}
 ReadSizes = {1, 2, 7, 8, 15, 16, 17, 64}
 MaxSegs = 3
INIT Init
NEXT Next
INVARIANTS InOrderOnce Complete_ RightService EmitPlan
CHECK_DEADLOCK FALSE
