--------------------------------- MODULE Lines ---------------------------------
(* C19 - which service a connection's first line selects, from the statement:
   "handed to the RTSP service when its first bytes are an RTSP request line and
   to the HTTP service when they are an HTTP request line (an OPTIONS request is
   RTSP exactly when its target is '*' with an RTSP version or an rtsp:// URL),
   and is closed otherwise".  One printed row per (prefix, method, target, version). *)
EXTENDS Naturals, Sequences, TLC, Json
RtspOnly == {"DESCRIBE", "ANNOUNCE", "SETUP", "PLAY", "PAUSE", "TEARDOWN", "GET_PARAMETER", "SET_PARAMETER", "RECORD", "REDIRECT"}
HttpOnly == {"GET", "HEAD", "POST", "PATCH", "PUT", "DELETE", "TRACE", "CONNECT"}
Junk == {"FOO", "get", "OPTION", "", "$", "PLAYX", "GETS"}
Methods == RtspOnly \cup HttpOnly \cup Junk \cup {"OPTIONS"}
Targets == {"*", "rtsp://h/a", "RTSP://h/a", "/x", "http://h/"}
Versions == {"RTSP/1.0", "HTTP/1.1"}
Prefixes == {"", "\r\n", " ", "X"}
IsRtspUrl(t) == t \in {"rtsp://h/a", "RTSP://h/a"}

Class(p, m, t, v) ==
  IF p # "" THEN "none"
  ELSE IF m \in RtspOnly THEN "rtsp"
  ELSE IF m \in HttpOnly THEN "http"
  ELSE IF m = "OPTIONS" THEN (IF (t = "*" /\ v = "RTSP/1.0") \/ IsRtspUrl(t) THEN "rtsp" ELSE "http")
  ELSE "none"
(* lines on which the statement is explicit: a well-formed request line of one
   protocol, any OPTIONS line, or junk                                        *)
Compared(p, m, t, v) ==
  /\ m \in RtspOnly => (v = "RTSP/1.0" /\ (IsRtspUrl(t) \/ t = "*"))
  /\ m \in HttpOnly => (v = "HTTP/1.1" /\ ~IsRtspUrl(t))
  /\ (m = "PLAYX" \/ m = "GETS") => FALSE      \* a longer token starting with a method name: left open

VARIABLE row
Init == \E p \in Prefixes, m \in Methods, t \in Targets, v \in Versions :
          /\ row = [prefix |-> p, method |-> m, target |-> t, version |-> v,
                    class |-> Class(p, m, t, v), compared |-> Compared(p, m, t, v)]
          /\ PrintT(<<"@L", ToJson(row)>>)
Next == UNCHANGED row
(* sanity: the two services never both claim a line; OPTIONS is the only shared method *)
Exclusive == row.class \in {"rtsp", "http", "none"}
OptionsRule == (row.method = "OPTIONS" /\ row.prefix = "") =>
                 (row.class = "rtsp") = ((row.target = "*" /\ row.version = "RTSP/1.0") \/ IsRtspUrl(row.target))
================================================================================
