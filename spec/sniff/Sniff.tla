--------------------------------- MODULE Sniff ---------------------------------
(* C19 - port multiplexing.  One accepted connection: the client writes its byte
   stream (positions 1..N) in segments; the listener runs the RTSP matcher and
   then the HTTP matcher over a sniffing reader that records what it reads and
   replays it to the next matcher and finally to the chosen service
   (network/socket/listener: serve, Conn.startSniffing/doneSniffing,
   sniffer.Read, patriciaTree.matchPrefix = io.ReadFull of maxDepth bytes).

   The stream's class says which matcher's prefix set it satisfies and after how
   many bytes (Need); a matcher that has read r bytes answers TRUE iff it is the
   class's matcher and r >= Need (prefix match on the bytes read so far).

   Property (statement): the service reads exactly positions 1..N, in order,
   each once, whatever the segmentation and the service's read size; an
   unmatched connection is closed; exactly one service gets the connection.   *)
EXTENDS Naturals, Sequences, FiniteSets, TLC, Json
CONSTANTS N,          \* stream length
          D1, D2,     \* bytes the RTSP / HTTP matcher tries to read (maxDepth)
          SegSizes,   \* sizes the client's first writes may have
          ReadSizes,  \* buffer sizes of the receiving service
          MaxSegs

Classes == {"rtsp", "http", "none"}

VARIABLES segs,      \* client's remaining write segments (sequence of sizes); <<>> = all written, then EOF
          cur,       \* bytes of the segment being delivered that are still unread
          srcPos,    \* bytes consumed from the connection so far
          buf,       \* positions recorded by the sniffer (a sequence)
          bufRead, bufSize, sniffing, direct,
          phase,     \* "m1" | "m2" | "svc" | "closed" | "done"
          rf,        \* bytes collected by the current matcher's ReadFull
          class, need, rsize,
          got,       \* positions handed to the service, in order
          owner      \* which service accepted the connection
vars == <<segs, cur, srcPos, buf, bufRead, bufSize, sniffing, direct, phase, rf, class, need, rsize, got, owner>>

RECURSIVE Sum(_)
Sum(s) == IF s = <<>> THEN 0 ELSE Head(s) + Sum(Tail(s))

Plans == {s \in UNION {[1..k -> SegSizes] : k \in 0..MaxSegs} : Sum(s) <= N}
Complete(s) == IF Sum(s) < N THEN Append(s, N - Sum(s)) ELSE s

Min(a, b) == IF a < b THEN a ELSE b

Init == /\ \E s \in Plans : segs = Complete(s)
        /\ class \in Classes
        /\ need \in {1, 3, 7, 8, 14, 15} /\ need <= N
        /\ rsize \in ReadSizes
        /\ cur = 0 /\ srcPos = 0 /\ buf = <<>> /\ bufRead = 0 /\ bufSize = 0
        /\ sniffing = TRUE      \* startSniffing for the first matcher
        /\ direct = FALSE /\ phase = "m1" /\ rf = 0 /\ got = <<>> /\ owner = "nobody"

(* one Read(p) on the raw connection with len(p) = want: delivers min(want, rest of
   the current segment); at end of stream it returns 0 (EOF)                   *)
SrcAvail == IF cur > 0 THEN cur ELSE IF segs # <<>> THEN Head(segs) ELSE 0
SrcRead(want) == Min(want, SrcAvail)
SrcAdvance(n) == /\ srcPos' = srcPos + n
                 /\ IF cur > 0 THEN /\ cur' = cur - n /\ segs' = segs
                    ELSE IF segs # <<>> THEN /\ cur' = Head(segs) - n /\ segs' = Tail(segs)
                    ELSE cur' = cur /\ segs' = segs

(* sniffer.Read(p), len(p) = want; returns the positions delivered *)
SnifferRead(want, deliver(_)) ==
  IF bufSize > bufRead
  THEN LET n == Min(want, bufSize - bufRead) IN
       /\ deliver(SubSeq(buf, bufRead + 1, bufRead + n))
       /\ bufRead' = bufRead + n
       /\ UNCHANGED <<segs, cur, srcPos, buf, bufSize, direct>>
  ELSE LET n == SrcRead(want) IN
       /\ deliver([i \in 1..n |-> srcPos + i])
       /\ SrcAdvance(n)
       /\ buf' = IF sniffing /\ n > 0 THEN buf \o [i \in 1..n |-> srcPos + i] ELSE IF ~sniffing THEN <<>> ELSE buf
       /\ direct' = (direct \/ ~sniffing)
       /\ UNCHANGED <<bufRead, bufSize>>

Matches(m, r) == class = m /\ r >= need

(* matcher step: one Read inside io.ReadFull(buf[D]) *)
MatcherRead(m, D, nextphase) ==
  /\ phase = (IF m = "rtsp" THEN "m1" ELSE "m2")
  /\ rf < D /\ ~(bufSize <= bufRead /\ SrcAvail = 0)          \* more wanted and more can come
  /\ SnifferRead(D - rf, LAMBDA ps : rf' = rf + Len(ps))
  /\ UNCHANGED <<sniffing, phase, class, need, rsize, got, owner>>

(* ReadFull finished (D bytes, or EOF / deadline): decide *)
MatcherDecide(m, D, nextphase) ==
  /\ phase = (IF m = "rtsp" THEN "m1" ELSE "m2")
  /\ (rf = D \/ (bufSize <= bufRead /\ SrcAvail = 0))
  /\ IF Matches(m, rf)
     THEN /\ phase' = "svc" /\ owner' = m
          /\ sniffing' = FALSE /\ bufRead' = 0 /\ bufSize' = Len(buf)     \* doneSniffing = reset(false)
     ELSE /\ phase' = nextphase /\ owner' = owner
          /\ IF nextphase = "closed" THEN UNCHANGED <<sniffing, bufRead, bufSize>>
             ELSE sniffing' = TRUE /\ bufRead' = 0 /\ bufSize' = Len(buf)    \* startSniffing = reset(true)
  /\ rf' = 0
  /\ UNCHANGED <<segs, cur, srcPos, buf, direct, class, need, rsize, got>>

ServiceRead ==
  /\ phase = "svc"
  /\ ~(bufSize <= bufRead /\ SrcAvail = 0)
  /\ SnifferRead(rsize, LAMBDA ps : got' = got \o ps)
  /\ UNCHANGED <<sniffing, phase, rf, class, need, rsize, owner>>
ServiceEOF ==
  /\ phase = "svc" /\ bufSize <= bufRead /\ SrcAvail = 0
  /\ phase' = "done"
  /\ UNCHANGED <<segs, cur, srcPos, buf, bufRead, bufSize, sniffing, direct, rf, class, need, rsize, got, owner>>

Next == \/ MatcherRead("rtsp", D1, "m2") \/ MatcherDecide("rtsp", D1, "m2")
        \/ MatcherRead("http", D2, "closed") \/ MatcherDecide("http", D2, "closed")
        \/ ServiceRead \/ ServiceEOF

(* ---- the statement ------------------------------------------------------- *)
InOrderOnce == \A i \in 1..Len(got) : got[i] = i
Complete_ == phase = "done" => got = [i \in 1..N |-> i]
RightService == /\ phase \in {"svc", "done"} => owner = class
                /\ phase = "closed" => (class = "none" \/ (class = "http" /\ need > D2) \/ (class = "rtsp" /\ need > D1))
                /\ (class = "none") => phase \notin {"svc", "done"}
Terminates == <>(phase \in {"done", "closed"})

(* the plan of a connection, printed once per initial state *)
EmitPlan == (phase = "m1" /\ srcPos = 0 /\ rf = 0) =>
              PrintT(<<"@P", ToJson([segs |-> segs, rsize |-> rsize, class |-> class])>>)
================================================================================
