INIT Init
NEXT Next
INVARIANTS Exclusive OptionsRule
CHECK_DEADLOCK FALSE
