CONSTANTS MaxLen = 4
INIT Init
NEXT Next
INVARIANTS Emit
CHECK_DEADLOCK FALSE
