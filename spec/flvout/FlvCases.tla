--------------------------------- MODULE FlvCases ------------------------------
(* C08 - input space of the FLV path (codec.Frame -> flv.Muxer -> Stream.WriteFlvTag -> FlvCache -> flv.Writer):
   a short frame sequence, a time base (so that 24-bit and 32-bit millisecond boundaries are crossed), the
   composition offset of the video frames (PTS ahead of, equal to, or behind DTS), payload size classes, cache_gop,
   the video codec (AVC / HEVC),
   and the position at which the FLV client joins.                                                  *)
EXTENDS Naturals, Sequences, FiniteSets, TLC, Json
CONSTANTS MaxLen
Kinds == {"key", "non", "aud"}
Bases == {"zero", "b24", "b32"}          \* 0 ; just below 2^24 ms ; just below 2^32 ms
Ctos == {"zero", "ahead", "behind"}      \* PTS - DTS of video frames: 0, +80 ms, -40 ms
Sizes == {"s1", "s2", "s64k", "sbig"}    \* 1, 2, 65535, 70000 payload bytes
Codecs == {"h264", "h265"}
Seqs == UNION {[1..n -> Kinds] : n \in 1..MaxLen}
VARIABLE c
Init == \E s \in Seqs, v \in Codecs, b \in Bases, o \in Ctos, z \in Sizes, g \in BOOLEAN, j \in 0..MaxLen :
          /\ j <= Len(s)
          /\ s[1] = "key"                                   \* a stream starts with a key frame
          /\ c = [frames |-> s, base |-> b, cto |-> o, size |-> z, cachegop |-> g, join |-> j, codec |-> v]
Next == UNCHANGED c
Emit == PrintT(<<"@F", ToJson(c)>>)
================================================================================
