---------------------------------- MODULE FlvOut -------------------------------
(* C08 - acceptor for what an FLV client receives (trace validation; env VERIF_TRACE).  Records written by an
   independent FLV / AMF0 / AVCDecoderConfigurationRecord parser:
     [e |-> "begin", t, hasaudio]
     [e |-> "header", sig, version, flags, wantflags, offset, prev0]
     [e |-> "tag", type ("meta"|"vsh"|"ash"|"video"|"audio"|"other"), prevsize_ok, ts, wantts (decimal strings: TLC
            integers are 32 bit), ts_small (ts < 1000), ts_zero, older, key, wantkey,
            cts, wantcts, intact, cfg_ok, streamid]
     [e |-> "end", media (media tags seen), wantmedia, trailing]
   Properties of the statement, one @BAD line per violated clause.                                  *)
EXTENDS Integers, Sequences, FiniteSets, TLC, Json, IOUtils
Trace == ndJsonDeserialize(IOEnv.VERIF_TRACE)
VARIABLES l, stage, hasaudio
(* stage: 0 nothing, 1 header, 2 meta, 3 video config, 4 audio config, 5 media *)
Init == l = 0 /\ stage = 0 /\ hasaudio = FALSE
Bad(e, why) == PrintT(<<"@BAD", ToJson([line |-> l', t |-> e.t, why |-> why, ev |-> e])>>)
Ok(cond, e, why) == IF cond THEN TRUE ELSE Bad(e, why)
Next ==
  /\ l < Len(Trace) /\ l' = l + 1
  /\ LET e == Trace[l'] IN
     CASE e.e = "begin" -> stage' = 0 /\ hasaudio' = e.hasaudio
       [] e.e = "header" ->
            /\ Ok(e.sig = "FLV" /\ e.version = 1 /\ e.offset = 9 /\ e.prev0 = 0, e, "C08:file-header")
            /\ Ok(e.flags = e.wantflags, e, "C08:type-flags")
            /\ stage' = 1 /\ hasaudio' = hasaudio
       [] e.e = "tag" ->
            /\ hasaudio' = hasaudio
            /\ Ok(e.prevsize_ok, e, "C08:tag-not-followed-by-its-exact-size")
            /\ Ok(e.streamid = 0, e, "C08:stream-id")
            /\ CASE e.type = "meta" -> Ok(stage = 1, e, "C08:metadata-not-first") /\ stage' = 2
                 [] e.type = "vsh" -> /\ Ok(stage = 2, e, "C08:video-configuration-out-of-place")
                                      /\ Ok(e.cfg_ok, e, "C08:decoder-configuration-differs-from-the-stream's-parameter-sets")
                                      /\ stage' = 3
                 [] e.type = "ash" -> /\ Ok(stage = 3, e, "C08:audio-configuration-out-of-place")
                                      /\ Ok(e.cfg_ok, e, "C08:audio-configuration-differs")
                                      /\ stage' = 4
                 [] e.type \in {"video", "audio"} ->
                      /\ Ok(stage = 5 \/ stage = (IF hasaudio THEN 4 ELSE 3), e, "C08:media-before-configuration")
                      /\ Ok(e.intact, e, "C08:tag-payload-differs-from-source-frame")
                      /\ Ok(e.type = "audio" \/ e.key = e.wantkey, e, "C08:key-frame-flag")
                      /\ Ok(e.type = "audio" \/ e.cts = e.wantcts, e, "C08:composition-offset")
                      /\ Ok(e.older \/ e.ts = e.wantts, e, "C08:tag-timestamp")
                      /\ Ok(~e.older \/ e.ts_small, e, "C08:older-tag-shown-as-wrapped-timestamp")
                      /\ stage' = 5
                 [] OTHER -> Bad(e, "C08:unknown-tag") /\ stage' = stage
            /\ Ok(e.type \in {"video", "audio"} \/ e.ts_zero, e, "C08:header-tag-timestamp-not-zero-for-the-client")
       [] e.e = "end" -> /\ Ok(e.media = e.wantmedia, e, "C08:media-tags-missing-or-extra")
                         /\ Ok(e.trailing = 0, e, "C08:trailing-bytes")
                         /\ UNCHANGED <<stage, hasaudio>>
AllConsumed == TLCGet("stats").diameter = Len(Trace) + 1
================================================================================
