---------------------------------- MODULE TsOut --------------------------------
(* C09 - acceptor for transport streams, used for trace validation.  The ndjson trace (env VERIF_TRACE) is what
   an independent TS/PES demultiplexer saw, one record per 188-byte packet and one per reassembled PES:
     [e |-> "begin", t]                                    a new stream (one muxer run)
     [e |-> "pkt", pid, pusi, cc, af, aflen, rai, pcrf, pcr, paylen, sync, size]
     [e |-> "psi", what, ok, ...]                          PAT / PMT as decoded (CRC verified by the demultiplexer)
     [e |-> "pes", pid, sid, peslen, total, pts, dts, hasdts, wantpts, wantdts, key, intact, prefix, rai, pcrf, pcr, pcr_ok]
        (33-bit time values are decimal strings: TLC integers are 32 bit)
     [e |-> "end", frames, pes]
     [e |-> "hls", inband, segments, video_units, audio_frames, bad, video_equal, audio_equal, key_flags, prefixes]
        (driver TestTsHls: packetisers -> hls.SegmentGenerator, which batches ~100 ms of audio into one PES)
   Every record is consumed; a record the statement forbids prints one @BAD line.                     *)
EXTENDS Integers, Sequences, FiniteSets, TLC, Json, IOUtils
Trace == ndJsonDeserialize(IOEnv.VERIF_TRACE)
VARIABLES l, cc, npkt, seenPat, seenPmt, open
vars == <<l, cc, npkt, seenPat, seenPmt, open>>
Pids == {0, 4097, 256, 257}      \* PAT, PMT (the PAT announces program 1 on PID 0x1001), video, audio
Init == l = 0 /\ cc = [p \in Pids |-> -1] /\ npkt = 0 /\ seenPat = FALSE /\ seenPmt = FALSE /\ open = [p \in Pids |-> FALSE]
Bad(e, why) == PrintT(<<"@BAD", ToJson([line |-> l', t |-> e.t, why |-> why, ev |-> e])>>)
Ok(cond, e, why) == IF cond THEN TRUE ELSE Bad(e, why)

Pkt(e) ==
  /\ npkt' = npkt + 1
  /\ Ok(e.size = 188 /\ e.sync = 71, e, "C09:packet-not-188-bytes-with-sync")
  /\ Ok(e.pid \in Pids, e, "C09:unexpected-pid")
  /\ Ok(npkt # 0 \/ e.pid = 0, e, "C09:stream-does-not-begin-with-PAT")
  /\ Ok(npkt # 1 \/ e.pid = 4097, e, "C09:PMT-does-not-follow-PAT")
  /\ IF e.pid \in Pids
     THEN /\ Ok(cc[e.pid] = -1 \/ e.cc = (cc[e.pid] + 1) % 16, e, "C09:continuity-counter")
          /\ cc' = [cc EXCEPT ![e.pid] = e.cc]
          /\ open' = [open EXCEPT ![e.pid] = TRUE]
          /\ Ok(e.pusi \/ open[e.pid], e, "C09:payload-without-unit-start")
     ELSE UNCHANGED <<cc, open>>
  /\ Ok(~e.af \/ (e.aflen <= 183 /\ e.paylen = 183 - e.aflen), e, "C09:adaptation-field-length")
  /\ Ok(e.af \/ e.paylen = 184, e, "C09:payload-length")
  /\ Ok(e.paylen > 0, e, "C09:packet-without-payload")
  /\ UNCHANGED <<seenPat, seenPmt>>

Psi(e) ==
  /\ Ok(e.ok, e, "C09:" \o e.what \o "-malformed-or-bad-crc")
  /\ seenPat' = (seenPat \/ e.what = "pat") /\ seenPmt' = (seenPmt \/ e.what = "pmt")
  /\ UNCHANGED <<cc, npkt, open>>

Pes(e) ==
  /\ Ok(seenPat /\ seenPmt, e, "C09:media-before-PAT-PMT")
  /\ Ok((e.pid = 256 /\ e.sid = 224) \/ (e.pid = 257 /\ e.sid = 192), e, "C09:stream-id-or-pid")
  /\ Ok(e.peslen = (IF e.total - 6 > 65535 THEN 0 ELSE e.total - 6), e, "C09:PES-packet-length")
  /\ Ok(e.pts = e.wantpts, e, "C09:PTS-does-not-decode-to-the-supplied-value")
  /\ Ok(e.wantdts = e.wantpts \/ (e.hasdts /\ e.dts = e.wantdts), e, "C09:DTS-does-not-decode-to-the-supplied-value")
  /\ Ok(~e.key \/ (e.rai /\ e.pcrf), e, "C09:key-frame-without-random-access-flag-and-PCR")
  /\ Ok(e.pcr_ok, e, "C09:PCR-differs-from-the-key-frame's-decode-time")
  /\ Ok(e.prefix, e, "C09:access-unit-prefix (AUD / SPS / PPS / ADTS header)")
  /\ Ok(e.intact, e, "C09:payload-differs-from-source-frame")
  /\ UNCHANGED <<cc, npkt, seenPat, seenPmt, open>>

Next ==
  /\ l < Len(Trace) /\ l' = l + 1
  /\ LET e == Trace[l'] IN
     CASE e.e = "begin" -> cc' = [p \in Pids |-> -1] /\ npkt' = 0 /\ seenPat' = FALSE /\ seenPmt' = FALSE /\ open' = [p \in Pids |-> FALSE]
       [] e.e = "pkt" -> Pkt(e)
       [] e.e = "psi" -> Psi(e)
       [] e.e = "pes" -> Pes(e)
       [] e.e = "hls" -> \* one stream through the HLS segment generator, every completed segment demultiplexed
            /\ Ok(e.bad = <<>>, e, "C09:hls-segment-is-not-a-valid-transport-stream")
            /\ Ok(e.video_equal, e, "C09:hls-video-units-differ-from-the-source")
            /\ Ok(e.audio_equal, e, "C09:hls-adts-frames-differ-from-the-source-AAC-frames")
            /\ Ok(e.key_flags, e, "C09:hls-key-frame-not-recognisable")
            /\ Ok(e.prefixes, e, "C09:hls-access-unit-without-delimiter-or-key-frame-without-SPS-PPS")
            /\ Ok(e.segments >= 3 /\ e.video_units > 50 /\ e.audio_frames > 50, e, "C09:vacuous-hls-run")
            /\ UNCHANGED <<cc, npkt, seenPat, seenPmt, open>>
       [] e.e = "end" -> /\ Ok(e.pes = e.frames, e, "C09:frames-in-vs-PES-out") /\ UNCHANGED <<cc, npkt, seenPat, seenPmt, open>>
AllConsumed == TLCGet("stats").diameter = Len(Trace) + 1
================================================================================
