--------------------------------- MODULE TsCases -------------------------------
(* C09 - input space of the MPEG-TS packetiser.  A frame is (kind, size, time
   class, pts=dts?).  The case analysis of av/format/mpegts/writer.go depends on
   how header+payload bytes fall on the 184-byte packet payloads, with/without
   the 8-byte adaptation field of key frames, with a 14- or 19-byte PES header,
   and on PES sizes around 65535.  TLC enumerates every size 1..Max and the
   sizes around the 16-bit boundary, for every kind and time class (single
   frames), and three-frame sequences for the continuity counters.            *)
EXTENDS Naturals, Sequences, FiniteSets, TLC, Json
CONSTANTS MaxSize, BigSizes, SeqLen

Kinds == {"key", "non", "aud"}
Times == {"zero", "small", "max33"}            \* 90 kHz values 0 / 900 / largest 33-bit multiple of 9
Sizes == (1..MaxSize) \cup BigSizes

VARIABLE frames
Frame == [kind : Kinds, size : Sizes, time : Times, ptsdts : BOOLEAN]
(* an AAC frame never exceeds what the 13-bit ADTS length field can express *)
Realistic(f) == f.kind = "aud" => f.size <= MaxSize
Init == \/ \E f \in Frame : Realistic(f) /\ frames = <<f>>
Next == UNCHANGED frames
Emit == PrintT(<<"@T", ToJson(frames)>>)

(* what the statement requires of the output for one frame, as far as it can be said without bytes:
   number of bytes the PES carries and the flags of its first packet                                   *)
AnnexB(kind, size, spsLen, ppsLen) ==
  CASE kind = "key" -> 6 + (4 + spsLen) + (4 + ppsLen) + 3 + size      \* AUD, SPS, PPS, start code, NAL
    [] kind = "non" -> 6 + 3 + size
    [] OTHER -> 7 + size                                                 \* ADTS header + AAC frame
================================================================================
