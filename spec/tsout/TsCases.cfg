CONSTANTS MaxSize = 600
 BigSizes = {65400, 65500, 65510, 65520, 65521, 65522, 65530, 65535, 65536, 65540, 70000}
 SeqLen = 1
INIT Init
NEXT Next
INVARIANTS Emit
CHECK_DEADLOCK FALSE
