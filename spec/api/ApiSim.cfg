SPECIFICATION Spec
CONSTANTS
 Pats <- MCPats
 Urls <- MCUrls
 UserNames <- MCUserNames
 Paths <- MCPaths
 Passwords <- MCPasswords
 Spellings <- MCSpellings
 PageSizes <- MCPageSizes
 MaxHist = 25
 EmitAt = 25
INVARIANTS RefusedChangedNothing Emit PagingComplete
CHECK_DEADLOCK FALSE
