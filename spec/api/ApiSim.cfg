SPECIFICATION Spec
CONSTANTS
 Pats <- MCPats
 Urls <- MCUrls
 UserNames <- MCUserNames
 Paths <- MCPaths
 PageSizes <- MCPageSizes
 MaxHist = 25
 EmitAt = 25
INVARIANTS Emit PagingComplete
CHECK_DEADLOCK FALSE
