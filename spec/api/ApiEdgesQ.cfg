INIT InitR
NEXT Next
CONSTANTS
 Pats <- MCPats
 Urls <- MCUrls1
 UserNames <- MCUserNames
 Paths <- MCPaths
 PageSizes <- MCPageSizes2
 MaxHist = 30
 EmitAt = 99
VIEW View
INVARIANTS PagingComplete
ACTION_CONSTRAINT EmitEdge
CHECK_DEADLOCK FALSE
