INIT InitR
NEXT Next
CONSTANTS
 Pats <- MCPats
 Urls <- MCUrls1
 UserNames <- MCUserNames
 Paths <- MCPaths
 Passwords <- MCPasswords1
 Spellings <- MCSpellings1
 PageSizes <- MCPageSizes1
 MaxHist = 30
 EmitAt = 99
VIEW View
INVARIANTS RefusedChangedNothing PagingComplete
ACTION_CONSTRAINT EmitEdge
CHECK_DEADLOCK FALSE
