SPECIFICATION Spec
CONSTANTS
 Pats <- MCPats
 Urls <- MCUrls
 UserNames <- MCUserNames
 Paths <- MCPaths
 PageSizes <- MCPageSizes
 MaxHist = 2
 EmitAt = 2
INVARIANTS Emit PagingComplete
PROPERTIES RefusedChangesNothing
CHECK_DEADLOCK FALSE
