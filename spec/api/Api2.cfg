SPECIFICATION Spec
CONSTANTS
 Pats <- MCPats
 Urls <- MCUrls
 UserNames <- MCUserNames
 Paths <- MCPaths
 Passwords <- MCPasswords
 Spellings <- MCSpellings
 PageSizes <- MCPageSizes
 MaxHist = 2
 EmitAt = 2
INVARIANTS RefusedChangedNothing
CHECK_DEADLOCK FALSE
