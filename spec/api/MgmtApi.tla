-------------------------------- MODULE MgmtApi --------------------------------
(* The management API (service/apis.go) as a reference model: what every HTTP call must answer, given who calls and
   what the tables and the media centre contain.

     routes    POST /api/v1/routes {pattern,url}   DELETE /api/v1/routes/<pattern>   GET /api/v1/routes/<pattern>
               GET /api/v1/routes?page_size=&page_token=
     users     POST /api/v1/users {name,...}       DELETE /api/v1/users/<name>       GET /api/v1/users/<name>
               GET /api/v1/users?page_size=&page_token=
     streams   GET /api/v1/streams?page_size=&page_token=      GET /api/v1/streams/<path>
               DELETE /api/v1/streams/<path>                   DELETE /api/v1/streams/<path>:consumer?cid=

   Callers: "adm" (token of an administrator), "usr" (token of an ordinary user), "anon" (no token).  Everything needs
   a valid token (401 otherwise); everything except the two stream queries needs an administrator (403 otherwise); a
   refused call changes nothing (C11).  Listings are pages of the sorted keys after page_token, at most page_size of
   them, with the total and the key of the last item as next token; walking the pages visits every key once.
   pub / att are not API calls: the driver publishes a stream / attaches a consumer so that the stream calls have
   something to act on (C05: a stopped stream is gone; C03: its consumers, or the one stopped consumer, are released).

   hist carries, for every call, the expected status and payload so that TLC-generated histories can be replayed
   against the real HTTP server and compared.                                                                       *)
EXTENDS Naturals, Sequences, FiniteSets, TLC, Json
CONSTANTS Pats,       \* route patterns, as a sequence in sorted order
          Urls, UserNames, \* UserNames: sequence in sorted order; "adm" and "usr" always exist beside them
          Paths,      \* stream paths, sequence in sorted order
          PageSizes, MaxHist, EmitAt,
          Passwords,  \* what a user's password can be set to
          Spellings   \* how the caller writes names and patterns: "canon" as stored, "mixed" with capitals (names are
                      \* lower-cased, patterns canonicalised: the same entry is meant)

Callers == {"adm", "usr", "anon"}
Range(s) == {s[i] : i \in 1..Len(s)}
AllUsersSorted == <<"adm">> \o UserNames \o <<"usr">>       \* the cfg keeps UserNames between "adm" and "usr" in order
None == "none"
NoUser == [kind |-> "none", pw |-> "none"]       \* (a record, so that it compares with user records)

VARIABLES routes,    \* [Range(Pats) -> Urls \cup {None}]
          users,     \* [Range(UserNames) -> {NoUser} \cup [kind: {"admin", "plain"}, pw: Passwords]]
          streams,   \* [Range(Paths) -> [live: BOOLEAN, cons: SUBSET 1..2]]   (consumer slots)
          hist
vars == <<routes, users, streams, hist>>
Exists(u) == users[u].kind # "none"

Status(c, adminOnly) == IF c = "anon" THEN 401 ELSE IF adminOnly /\ c # "adm" THEN 403 ELSE 200

\* a page: the present keys of the sorted key sequence `keys` that are greater than token ("" = before everything),
\* at most n of them
Idx(keys, k) == IF k = "" THEN 0 ELSE CHOOSE i \in 1..Len(keys) : keys[i] = k
Present(keys, present) == SelectSeq(keys, LAMBDA k : present[k])
PageOf(keys, present, token, n) ==
  LET a == SelectSeq(keys, LAMBDA k : present[k] /\ Idx(keys, k) > Idx(keys, token))
  IN IF Len(a) <= n THEN a ELSE SubSeq(a, 1, n)
NextToken(page, token) == IF page = <<>> THEN token ELSE page[Len(page)]

RoutePresent == [p \in Range(Pats) |-> routes[p] # None]
UserPresent == [u \in Range(AllUsersSorted) |-> IF u \in {"adm", "usr"} THEN TRUE ELSE Exists(u)]
StreamPresent == [s \in Range(Paths) |-> streams[s].live]
Count(present) == Cardinality({k \in DOMAIN present : present[k]})

Rec(op, c, args, st, exp) == [op |-> op, caller |-> c, args |-> args, status |-> st, exp |-> exp, chg |-> FALSE]
\* chg: did the call change a table or a stream (for the invariant RefusedChangedNothing)
Log(r) == hist' = Append(hist, [r EXCEPT !.chg = (<<routes', users', streams'>> # <<routes, users, streams>>)])

SaveRoute(c, p, u, sp) == LET st == Status(c, TRUE) IN
  /\ routes' = IF st = 200 THEN [routes EXCEPT ![p] = u] ELSE routes
  /\ UNCHANGED <<users, streams>> /\ Log(Rec("saveRoute", c, [pattern |-> p, url |-> u, spell |-> sp], st, [none |-> TRUE]))
DelRoute(c, p, sp) == LET st == Status(c, TRUE) IN
  /\ routes' = IF st = 200 THEN [routes EXCEPT ![p] = None] ELSE routes
  /\ UNCHANGED <<users, streams>> /\ Log(Rec("delRoute", c, [pattern |-> p, spell |-> sp], st, [none |-> TRUE]))
GetRoute(c, p, sp) == LET st == Status(c, TRUE) IN
  /\ UNCHANGED <<routes, users, streams>>
  /\ Log(Rec("getRoute", c, [pattern |-> p, spell |-> sp], IF st = 200 /\ routes[p] = None THEN 404 ELSE st, [url |-> routes[p]]))
ListRoutes(c, n, tok) == LET st == Status(c, TRUE)
                             pg == PageOf(Pats, RoutePresent, tok, n) IN
  /\ UNCHANGED <<routes, users, streams>>
  /\ Log(Rec("listRoutes", c, [size |-> n, token |-> tok], st, [items |-> pg, total |-> Count(RoutePresent), next |-> NextToken(pg, tok)]))

\* update keeps the password unless asked to change it (update_password=1); a new user gets the password given
SaveUser(c, u, kind, pw, upd, sp) == LET st == Status(c, TRUE)
                                        newpw == IF ~Exists(u) \/ upd THEN pw ELSE users[u].pw IN
  /\ users' = IF st = 200 THEN [users EXCEPT ![u] = [kind |-> kind, pw |-> newpw]] ELSE users
  /\ UNCHANGED <<routes, streams>>
  /\ Log(Rec("saveUser", c, [name |-> u, admin |-> kind = "admin", pw |-> pw, upd |-> upd, spell |-> sp], st, [none |-> TRUE]))
DelUser(c, u, sp) == LET st == Status(c, TRUE) IN
  /\ users' = IF st = 200 THEN [users EXCEPT ![u] = NoUser] ELSE users
  /\ UNCHANGED <<routes, streams>> /\ Log(Rec("delUser", c, [name |-> u, spell |-> sp], st, [none |-> TRUE]))
GetUser(c, u, sp) == LET st == Status(c, TRUE) IN
  /\ UNCHANGED <<routes, users, streams>>
  /\ Log(Rec("getUser", c, [name |-> u, spell |-> sp], IF st = 200 /\ ~Exists(u) THEN 404 ELSE st,
             [admin |-> users[u].kind = "admin"]))
\* logging in needs no token: it succeeds exactly with the password the user has now
Login(u, pw, sp) ==
  /\ UNCHANGED <<routes, users, streams>>
  /\ Log(Rec("login", "anon", [name |-> u, pw |-> pw, spell |-> sp], IF Exists(u) /\ users[u].pw = pw THEN 200 ELSE 403, [none |-> TRUE]))
ListUsers(c, n, tok) == LET st == Status(c, TRUE)
                            pg == PageOf(AllUsersSorted, UserPresent, tok, n) IN
  /\ UNCHANGED <<routes, users, streams>>
  /\ Log(Rec("listUsers", c, [size |-> n, token |-> tok], st, [items |-> pg, total |-> Count(UserPresent), next |-> NextToken(pg, tok)]))

\* driver actions (not API calls)
Pub(s) == /\ ~streams[s].live /\ streams' = [streams EXCEPT ![s] = [live |-> TRUE, cons |-> {}]]
          /\ UNCHANGED <<routes, users>> /\ Log(Rec("pub", "drv", [path |-> s], 0, [none |-> TRUE]))
Att(s, k) == /\ streams[s].live /\ k \notin streams[s].cons
             /\ streams' = [streams EXCEPT ![s].cons = @ \cup {k}]
             /\ UNCHANGED <<routes, users>> /\ Log(Rec("att", "drv", [path |-> s, slot |-> k], 0, [none |-> TRUE]))

ListStreams(c, n, tok) == LET st == Status(c, FALSE)
                              pg == PageOf(Paths, StreamPresent, tok, n) IN
  /\ UNCHANGED <<routes, users, streams>>
  \* (named deviation: an empty page of the stream listing carries an empty next token, where the route and user
  \*  listings repeat the token they were given)
  /\ Log(Rec("listStreams", c, [size |-> n, token |-> tok], st, [items |-> pg, total |-> Count(StreamPresent), next |-> NextToken(pg, "")]))
GetStream(c, s) == LET st == Status(c, FALSE) IN
  /\ UNCHANGED <<routes, users, streams>>
  /\ Log(Rec("getStream", c, [path |-> s], IF st = 200 /\ ~streams[s].live THEN 404 ELSE st, [cc |-> Cardinality(streams[s].cons)]))
StopStream(c, s) == LET st == Status(c, TRUE) IN
  /\ streams' = IF st = 200 THEN [streams EXCEPT ![s] = [live |-> FALSE, cons |-> {}]] ELSE streams
  /\ UNCHANGED <<routes, users>>
  \* after the call: is the stream still there, how many consumers does it have, how many were released (closed)
  /\ Log(Rec("stopStream", c, [path |-> s], st, [live |-> streams'[s].live, cc |-> Cardinality(streams'[s].cons)]))
StopConsumer(c, s, k) == LET st == Status(c, TRUE) IN
  /\ streams' = IF st = 200 THEN [streams EXCEPT ![s].cons = @ \ {k}] ELSE streams
  /\ UNCHANGED <<routes, users>>
  /\ Log(Rec("stopConsumer", c, [path |-> s, slot |-> k], st, [live |-> streams'[s].live, cc |-> Cardinality(streams'[s].cons)]))

Tokens(keys) == {""} \cup Range(keys)
Init == /\ routes = [p \in Range(Pats) |-> None] /\ users = [u \in Range(UserNames) |-> NoUser]
        /\ streams = [s \in Range(Paths) |-> [live |-> FALSE, cons |-> {}]] /\ hist = <<>>
Next == /\ Len(hist) < MaxHist
        /\ \/ \E c \in Callers, p \in Range(Pats), sp \in Spellings : (\E u \in Urls : SaveRoute(c, p, u, sp)) \/ DelRoute(c, p, sp) \/ GetRoute(c, p, sp)
           \/ \E c \in Callers, n \in PageSizes, t \in Tokens(Pats) : ListRoutes(c, n, t)
           \/ \E c \in Callers, u \in Range(UserNames), sp \in Spellings :
                 (\E k \in {"admin", "plain"}, pw \in Passwords, upd \in BOOLEAN : SaveUser(c, u, k, pw, upd, sp)) \/ DelUser(c, u, sp) \/ GetUser(c, u, sp)
           \/ \E u \in Range(UserNames), pw \in Passwords, sp \in Spellings : Login(u, pw, sp)
           \/ \E c \in Callers, n \in PageSizes, t \in Tokens(AllUsersSorted) : ListUsers(c, n, t)
           \/ \E s \in Range(Paths) : Pub(s) \/ \E k \in 1..2 : Att(s, k)
           \/ \E c \in Callers, n \in PageSizes, t \in Tokens(Paths) : ListStreams(c, n, t)
           \/ \E c \in Callers, s \in Range(Paths) : GetStream(c, s) \/ StopStream(c, s) \/ \E k \in 1..2 : StopConsumer(c, s, k)
Spec == Init /\ [][Next]_vars

Emit == Len(hist) >= EmitAt => PrintT(<<"@A", ToJson(hist)>>)
View == <<routes, users, streams>>
\* first (BFS-shortest) history per class of call: (operation, caller, arguments, expected answer, payload); needs
\* -workers 1 and INIT InitR
EdgeClass == LET h == hist'[Len(hist')] IN <<h.op, h.caller, h.args, h.status, h.exp>>   \* (chg follows from these)
EmitEdge == IF EdgeClass \in TLCGet(1) THEN TRUE
            ELSE TLCSet(1, TLCGet(1) \cup {EdgeClass}) /\ PrintT(<<"@A", ToJson(hist')>>)
InitR == Init /\ TLCSet(1, {})

(* ---- properties of the model itself ------------------------------------------------------------------------- *)
\* a call that is refused (401 / 403) never changes a table or a stream
RefusedChangedNothing == \A i \in 1..Len(hist) : hist[i].status \in {401, 403} => ~hist[i].chg
\* walking the pages of a listing visits every present key exactly once, in order
RECURSIVE Walk(_, _, _, _, _)
Walk(keys, present, tok, n, fuel) == IF fuel = 0 THEN <<>> ELSE
                           LET pg == PageOf(keys, present, tok, n) IN IF pg = <<>> THEN <<>> ELSE pg \o Walk(keys, present, NextToken(pg, tok), n, fuel - 1)
PagingComplete == \A n \in PageSizes :
                    /\ Walk(Pats, RoutePresent, "", n, 8) = Present(Pats, RoutePresent)
                    /\ Walk(AllUsersSorted, UserPresent, "", n, 8) = Present(AllUsersSorted, UserPresent)
                    /\ Walk(Paths, StreamPresent, "", n, 8) = Present(Paths, StreamPresent)
=============================================================================
