INIT InitR
NEXT Next
CONSTANTS
 Pats <- MCPats
 Urls <- MCUrls
 UserNames <- MCUserNames
 Paths <- MCPaths
 Passwords <- MCPasswords
 Spellings <- MCSpellings
 PageSizes <- MCPageSizes
 MaxHist = 30
 EmitAt = 99
VIEW View
INVARIANTS RefusedChangedNothing PagingComplete
ACTION_CONSTRAINT EmitEdge
CHECK_DEADLOCK FALSE
