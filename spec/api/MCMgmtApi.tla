------------------------------ MODULE MCMgmtApi ------------------------------
EXTENDS MgmtApi
MCPats == <<"/cam/", "/cam/x", "/door">>
MCUrls == {"rtsp://h1/a", "rtsp://h2/b/"}
MCUserNames == <<"bob", "eve">>
MCPaths == <<"/s/one", "/s/two">>
MCPageSizes == {1, 2, 5}
MCPasswords == {"pw-one", "pw-two"}
MCSpellings == {"canon", "mixed"}
MCSpellings1 == {"canon"}
MCPasswords1 == {"pw-one"}
MCPageSizes1 == {2}
MCUrls1 == {"rtsp://h1/a"}
MCPageSizes2 == {1, 5}
=============================================================================
