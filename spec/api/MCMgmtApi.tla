------------------------------ MODULE MCMgmtApi ------------------------------
EXTENDS MgmtApi
MCPats == <<"/cam/", "/cam/x", "/door">>
MCUrls == {"rtsp://h1/a", "rtsp://h2/b/"}
MCUserNames == <<"bob", "eve">>
MCPaths == <<"/s/one", "/s/two">>
MCPageSizes == {1, 2, 5}
MCUrls1 == {"rtsp://h1/a"}
MCPageSizes2 == {1, 5}
=============================================================================
