CONSTANTS Family = "h264"
INIT Init
NEXT Next
INVARIANTS Emit
CHECK_DEADLOCK FALSE
