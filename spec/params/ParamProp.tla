---------------------------------- MODULE ParamProp ------------------------------
(* C15 - what the standards say the reported figures are (trace validation; env VERIF_TRACE).  Records:
     [e |-> "param", t, case (a ParamCases case), ok (decoder returned no error), w, h, fps_milli, fixed,          decoder API
            sdp_w, sdp_h, sdp_fps_milli, sdp_fixed, sdp_rate, sdp_ch (what a stream created from an SDP carrying the
            parameter set reports), maxsub, nu, ts, level (VPS), rate, ch (ASC)]
     [e |-> "total", t, fam, src, outcome ("ok"|"error"|"panic: .."|"stuck"), usable]        arbitrary / damaged bytes
   H.264: 7.4.2.1.1 (frame cropping, CropUnitX/Y from ChromaArrayType and frame_mbs_only_flag), E.2.1 (time_scale /
   (2 * num_units_in_tick) for frames, fixed_frame_rate_flag).  H.265: 7.4.3.2.1 (conformance window in units of
   SubWidthC / SubHeightC), E.3.1 (vui_time_scale / vui_num_units_in_tick).  AAC: ISO/IEC 14496-3 1.6.2.1, 1.6.5
   (extension sampling frequency when SBR is signalled explicitly; channelConfiguration table).                 *)
EXTENDS Integers, Sequences, FiniteSets, TLC, Json, IOUtils
Trace == ndJsonDeserialize(IOEnv.VERIF_TRACE)
VARIABLES l
Init == l = 0
Bad(e, why) == PrintT(<<"@BAD", ToJson([line |-> l', t |-> e.t, why |-> why, ev |-> e])>>)
Ok(cond, e, why) == IF cond THEN TRUE ELSE Bad(e, why)

Crop(class) == CASE class = "bottom" -> [l |-> 0, r |-> 0, t |-> 0, b |-> 4]
                 [] class = "lrtb" -> [l |-> 1, r |-> 2, t |-> 3, b |-> 4]
                 [] OTHER -> [l |-> 0, r |-> 0, t |-> 0, b |-> 0]
\* Table 6-1
SubWidthC(ch) == IF ch.idc \in {1, 2} /\ ch.sep = 0 THEN 2 ELSE 1
SubHeightC(ch) == IF ch.idc = 1 /\ ch.sep = 0 THEN 2 ELSE 1

H264W(c) == 16 * c.size.wmbs - SubWidthC(c.chroma) * (Crop(c.crop).l + Crop(c.crop).r)
H264H(c) == 16 * (2 - c.fmo) * c.size.hmu - SubHeightC(c.chroma) * (2 - c.fmo) * (Crop(c.crop).t + Crop(c.crop).b)
H264Fps(c) == CASE c.vui = "fixed25" -> 25000 [] c.vui = "ntsc" -> 29970 [] c.vui = "full" -> 30000 [] c.vui = "huge" -> 931 [] OTHER -> 0
H264Fixed(c) == c.vui \in {"fixed25", "full"}

HevcW(c) == c.size.w - SubWidthC(c.chroma) * (Crop(c.conf).l + Crop(c.conf).r)
HevcH(c) == c.size.h - SubHeightC(c.chroma) * (Crop(c.conf).t + Crop(c.conf).b)
HevcFps(c) == CASE c.vui = "timing" -> 25000 [] c.vui = "timinghrd" -> 29970 [] c.vui = "full" -> 50000 [] c.vui = "poc" -> 24000 [] OTHER -> 0

Rates == <<96000, 88200, 64000, 48000, 44100, 32000, 24000, 22050, 16000, 12000, 11025, 8000, 7350>>
Rate(idx, explicit) == IF idx = 15 THEN explicit ELSE Rates[idx + 1]
AscRate(c) == IF c.mode \in {"sbr", "ps", "lc+sync-sbr", "lc+sync-sbr-ps"} THEN Rate(c.xfidx, 88112) ELSE Rate(c.fidx, 44056)
AscCh(c) == IF c.chan = 7 THEN 8 ELSE c.chan

Next ==
  /\ l < Len(Trace) /\ l' = l + 1
  /\ LET e == Trace[l'] IN
     CASE e.e = "param" ->
           (LET c == e.case IN
            CASE c.fam = "h264" ->
                   /\ Ok(e.ok, e, "C15:valid-h264-sps-rejected")
                   /\ Ok(~e.ok \/ (e.w = H264W(c) /\ e.h = H264H(c)), e, "C15:h264-width-height")
                   /\ Ok(~e.ok \/ (e.fps_milli = H264Fps(c) /\ e.fixed = H264Fixed(c)), e, "C15:h264-frame-rate")
                   /\ Ok(e.sdp_w = H264W(c) /\ e.sdp_h = H264H(c) /\ e.sdp_fps_milli = H264Fps(c) /\ e.sdp_fixed = H264Fixed(c), e, "C15:h264-stream-metadata-from-sdp")
              [] c.fam = "hevc" ->
                   /\ Ok(e.ok, e, "C15:valid-hevc-sps-rejected")
                   /\ Ok(~e.ok \/ (e.w = HevcW(c) /\ e.h = HevcH(c)), e, "C15:hevc-width-height")
                   /\ Ok(~e.ok \/ e.fps_milli = HevcFps(c), e, "C15:hevc-frame-rate")
                   /\ Ok(e.sdp_w = HevcW(c) /\ e.sdp_h = HevcH(c) /\ e.sdp_fps_milli = HevcFps(c), e, "C15:hevc-stream-metadata-from-sdp")
              [] c.fam = "vps" ->
                   /\ Ok(e.ok, e, "C15:valid-hevc-vps-rejected")
                   /\ Ok(~e.ok \/ (e.maxsub = c.maxsub /\ e.level = 120), e, "C15:hevc-vps-fields")
                   /\ Ok(~e.ok \/ c.timing = "none" \/ (e.nu = 1001 /\ e.ts = 24000), e, "C15:hevc-vps-timing")
              [] c.fam = "asc" ->
                   /\ Ok(e.ok, e, "C15:valid-audio-specific-config-rejected")
                   /\ Ok(~e.ok \/ (e.rate = AscRate(c) /\ e.ch = AscCh(c)), e, "C15:aac-sample-rate-channels")
                   /\ Ok(e.sdp_rate = AscRate(c) /\ e.sdp_ch = AscCh(c), e, "C15:aac-stream-metadata-from-sdp"))
       [] e.e = "total" ->
            /\ Ok(e.outcome \in {"ok", "error"}, e, "C15:parser-panics-or-loops-on-arbitrary-bytes")
            /\ Ok(e.usable, e, "C15:sdp-with-damaged-parameter-sets-yields-no-usable-stream")
AllConsumed == TLCGet("stats").diameter = Len(Trace) + 1
================================================================================
