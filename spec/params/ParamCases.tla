------------------------------- MODULE ParamCases -------------------------------
(* C15 - the optional-syntax space of the codec parameter sets: one case is a vector of branch choices and of the
   values the reported figures depend on; the driver's independent bit-exact encoder turns it into a NAL unit /
   AudioSpecificConfig (all other syntax elements get plausible values whose Exp-Golomb widths vary with the case).
   ParamProp.tla derives what the standard says the figures are. *)
EXTENDS Naturals, Sequences, FiniteSets, TLC, Json
CONSTANTS Family     \* "h264" | "hevc" | "vps" | "asc"

\* ---- H.264 sequence parameter set (ITU-T H.264 7.3.2.1.1, E.1.1)
ProfClass == {"base", "high", "h444", "stereo"}      \* 66 | 100 | 244 | 128: the last three carry chroma_format_idc etc.
Chromas(p) == IF p = "base" THEN {[idc |-> 1, sep |-> 0]}
              ELSE {[idc |-> 0, sep |-> 0], [idc |-> 1, sep |-> 0], [idc |-> 2, sep |-> 0], [idc |-> 3, sep |-> 0], [idc |-> 3, sep |-> 1]}
Scalings(p) == IF p = "base" THEN {"none"} ELSE {"none", "flags0", "lists", "term"}
   \* matrix absent | present with no list | lists with positive and negative deltas | a list ended early by next_scale = 0
H264Sizes == {[wmbs |-> 120, hmu |-> 68], [wmbs |-> 45, hmu |-> 18]}     \* 1920x1088 (hmu counts map units: 34 when fields), 720x288
H264 == {[fam |-> "h264", prof |-> p, chroma |-> c, scaling |-> s, poc |-> o, fmo |-> f, mbaff |-> m, crop |-> k, vui |-> v, size |-> z] :
           p \in ProfClass, c \in UNION {Chromas(q) : q \in ProfClass}, s \in {"none", "flags0", "lists", "term"},
           o \in {0, 1, 2}, f \in {0, 1}, m \in {0, 1}, k \in {"none", "bottom", "lrtb"},
           v \in {"none", "fixed25", "ntsc", "full", "huge"}, z \in H264Sizes}
H264OK(c) == c.chroma \in Chromas(c.prof) /\ c.scaling \in Scalings(c.prof) /\ (c.fmo = 1 => c.mbaff = 0)

\* ---- H.265 sequence parameter set (ITU-T H.265 7.3.2.2, 7.3.3, 7.3.4, 7.3.7, E.2.1, E.2.2)
HevcSizes == {[w |-> 1920, h |-> 1088], [w |-> 352, h |-> 288]}
HEVC == {[fam |-> "hevc", maxsub |-> ms, ordering |-> od, sublayers |-> sl, chroma |-> c, conf |-> k, scaling |-> s, pcm |-> p, rps |-> r,
          longterm |-> lt, vui |-> v, size |-> z] :
           ms \in {0, 2}, od \in {0, 1}, sl \in {"none", "present"}, c \in Chromas("high"), k \in {"none", "bottom", "lrtb"},
           s \in {"off", "default", "data"}, p \in {0, 1}, r \in {"none", "plain", "inter", "chain", "zero"}, lt \in {0, 1},   \* "zero": a predicted set in which ref dPoc + deltaRps = 0 occurs (7-61), then a set predicted from it
           v \in {"none", "timing", "timinghrd", "full", "poc"}, z \in HevcSizes}
HEVCOK(c) == (c.maxsub = 0 => c.sublayers = "none")

\* ---- H.265 video parameter set (7.3.2.1)
VPS == {[fam |-> "vps", maxsub |-> ms, ordering |-> od, sublayers |-> sl, layersets |-> ls, timing |-> t] :
           ms \in {0, 2}, od \in {0, 1}, sl \in {"none", "present"}, ls \in {0, 2}, t \in {"none", "plain", "poc", "hrd1", "hrd2", "hrd2c"}}

\* ---- MPEG-4 AudioSpecificConfig (ISO/IEC 14496-3 1.6.2.1)
ASC == {[fam |-> "asc", mode |-> m, fidx |-> f, xfidx |-> x, chan |-> ch] :
           m \in {"lc", "sbr", "ps", "lc+sync-sbr", "lc+sync-nosbr", "lc+sync-sbr-ps", "lc+trailing"},
           f \in {0, 3, 4, 6, 8, 11, 12, 15}, x \in {0, 3, 4, 15}, ch \in 1..7}
   \* hierarchical SBR / PS (AOT 5 / 29), backward compatible signalling (sync extension 0x2b7, optionally 0x548), explicit 24-bit rates (15)
ASCOK(c) == (c.mode \in {"lc", "lc+sync-nosbr", "lc+trailing"} => c.xfidx = 0)

VARIABLE c
Init == CASE Family = "h264" -> c \in {x \in H264 : H264OK(x)}
          [] Family = "hevc" -> c \in {x \in HEVC : HEVCOK(x)}
          [] Family = "vps" -> c \in {x \in VPS : HEVCOK(x)}
          [] Family = "asc" -> c \in {x \in ASC : ASCOK(x)}
Next == UNCHANGED c
Emit == PrintT(<<"@P", ToJson(c)>>)
================================================================================
