------------------------------ MODULE MCWireReader ------------------------------
EXTENDS WireReader
\* sizes are scaled down: 4 = frame prefix, 7 / 9 = heads, 60 = a head far above the line limit of 20, bodies 0 / 3 / 12
WireA == << [kind |-> "req", head |-> 7, body |-> 0], [kind |-> "frame", head |-> 4, body |-> 12], [kind |-> "resp", head |-> 9, body |-> 3],
            [kind |-> "frame", head |-> 4, body |-> 0], [kind |-> "req", head |-> 7, body |-> 12] >>
WireLong == << [kind |-> "req", head |-> 7, body |-> 3], [kind |-> "req", head |-> 60, body |-> 0], [kind |-> "frame", head |-> 4, body |-> 3] >>
ChunksA == {1, 2, 5, 13}
=============================================================================
