CONSTANTS Msgs <- WireLong
 Chunks <- ChunksA
 Body = "full"
 MaxLine = 20
SPECIFICATION Spec
INVARIANTS Positioned Faithful NeverLost Bounded
PROPERTY Progress
CHECK_DEADLOCK FALSE
