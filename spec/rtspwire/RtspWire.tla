---------------------------------- MODULE RtspWire ------------------------------
(* C14 - acceptor for what the connection dispatcher yields (trace validation; env VERIF_TRACE).
   Positive part (driver TestWire): a concatenation of n messages was delivered in some chunking;
     [e |-> "begin", t, n, chunk, total]
     [e |-> "msg", t, i, extra, kind/wkind, pos/wpos, method/wmethod, url/wurl, code/wcode, proto, hdrs/whdrs (<<[k, v]>> sorted by
            name, values of one name joined with ", ", Content-Length left out), bodylen/wbodylen, bodyhash/wbodyhash,
            ch/wch, len/wlen, hash/whash]                 the i-th message yielded, next to the i-th message written
     [e |-> "end", t, yielded, n, err ("eof" | "none" | "error: .." | "panic: .."), pos, total]
   Negative part (driver TestFaults): [e |-> "neg", t, fault, val, off, kind, outcome ("error"|"yield"|"panic: .."|"stuck"),
            yielded, consumed, alloc_mb, err, complete_before, budget_hit, next_ok, framelen]
   One @BAD line per violated clause. *)
EXTENDS Integers, Sequences, FiniteSets, TLC, Json, IOUtils
Trace == ndJsonDeserialize(IOEnv.VERIF_TRACE)
VARIABLES l, n, seen
Init == l = 0 /\ n = 0 /\ seen = 0
Bad(e, why) == PrintT(<<"@BAD", ToJson([line |-> l', t |-> e.t, why |-> why, ev |-> e])>>)
Ok(cond, e, why) == IF cond THEN TRUE ELSE Bad(e, why)
Prefix(s, p) == Len(s) >= Len(p) /\ SubSeq(s, 1, Len(p)) = p
LineLimit == 70000        \* an over-long line must be refused before this many bytes went by
AllocLimit == 16          \* MiB a single damaged message may make the reader allocate
\* lengths nobody can mean; the other values of the fault cases (signs, exponents, hex) are merely not numbers, for which the
\* statement asks no more than "no panic, no unbounded buffering"
Absurd == {"2147483647", "2147483648", "4294967296", "99999999", "300000000", "9223372036854775807", "18446744073709551616"}
Next ==
  /\ l < Len(Trace) /\ l' = l + 1
  /\ LET e == Trace[l'] IN
     CASE e.e = "begin" -> n' = e.n /\ seen' = 0
       [] e.e = "msg" ->
            /\ seen' = seen + 1 /\ n' = n
            /\ Ok(e.i = seen + 1, e, "C14:driver-order")
            /\ IF e.extra THEN Bad(e, "C14:reader-yields-a-message-that-was-not-written")
               ELSE /\ Ok(e.kind = e.wkind, e, "C14:message-kind-confused (frame / response / request dispatch)")
                    /\ Ok(e.pos = e.wpos, e, "C14:reader-not-positioned-at-the-next-message")
                    /\ Ok(e.kind # "req" \/ (e.method = e.wmethod /\ e.url = e.wurl /\ e.proto = "RTSP/1.0"), e, "C14:request-line-differs")
                    /\ Ok(e.kind # "resp" \/ (e.code = e.wcode /\ e.proto = "RTSP/1.0"), e, "C14:status-line-differs")
                    /\ Ok(e.kind = "frame" \/ e.hdrs = e.whdrs, e, "C14:header-fields-differ")
                    /\ Ok(e.kind = "frame" \/ (e.bodylen = e.wbodylen /\ e.bodyhash = e.wbodyhash), e, "C14:body-differs")
                    /\ Ok(e.kind # "frame" \/ (e.ch = e.wch /\ e.len = e.wlen /\ e.hash = e.whash), e, "C14:interleaved-frame-differs")
       [] e.e = "end" ->
            /\ Ok(e.err = "eof", e, "C14:well-formed-stream-ends-with-an-error-other-than-end-of-stream")
            /\ Ok(e.yielded = e.n /\ e.pos = e.total, e, "C14:reader-did-not-yield-every-message")
            /\ UNCHANGED <<n, seen>>
       [] e.e = "neg" ->
            /\ Ok(e.outcome \in {"error", "yield"}, e, "C14:damaged-input-makes-the-reader-panic-or-hang")
            /\ CASE e.fault = "longline" ->
                       Ok(e.outcome = "error" /\ ~e.budget_hit /\ e.consumed <= LineLimit, e, "C14:over-long-header-is-buffered-without-limit")
                 [] e.fault = "biglength" ->
                       /\ Ok(e.alloc_mb <= AllocLimit, e, "C14:absurd-content-length-is-allocated-instead-of-rejected")
                       /\ Ok(e.val \notin Absurd \/ (e.yielded = 0 /\ e.outcome = "error"), e, "C14:message-with-absurd-content-length-is-not-rejected")
                 [] e.fault = "truncate" ->
                       Ok(e.yielded = e.complete_before /\ e.outcome = "error", e, "C14:truncated-message-is-yielded-as-if-complete")
                 [] e.fault = "shortrtp" ->
                       Ok(e.outcome = "error" => (e.consumed = e.framelen /\ e.next_ok), e, "C14:refused-frame-leaves-the-stream-out-of-position")
                 [] OTHER -> TRUE
            /\ UNCHANGED <<n, seen>>
AllConsumed == TLCGet("stats").diameter = Len(Trace) + 1
================================================================================
