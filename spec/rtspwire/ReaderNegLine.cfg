CONSTANTS Msgs <- WireLong
 Chunks <- ChunksA
 Body = "full"
 MaxLine = 0
SPECIFICATION Spec
INVARIANTS Positioned Faithful NeverLost Bounded BoundedAlways
PROPERTY Progress
CHECK_DEADLOCK FALSE
