------------------------------- MODULE WireFaults -------------------------------
(* C14, negative part - fault cases for the wire codec: a valid message of some shape damaged in one way.
   "truncate" and "mutate" stand for every offset (the driver expands them); val is the replacement byte, the
   place of the endless line, the Content-Length text, the garbage seed or the short RTP frame length.      *)
EXTENDS Naturals, Sequences, FiniteSets, TLC, Json
Bases == {[k |-> "req", m |-> "SETUP", url |-> "plain", hdr |-> "unknown", body |-> "none", src |-> "real"],
          [k |-> "req", m |-> "ANNOUNCE", url |-> "v6", hdr |-> "min", body |-> "small", src |-> "real"],
          [k |-> "req", m |-> "ANNOUNCE", url |-> "plain", hdr |-> "case", body |-> "small", src |-> "peer"],
          [k |-> "resp", code |-> 200, hdr |-> "min", body |-> "small", src |-> "real"],
          [k |-> "resp", code |-> 401, hdr |-> "multi", body |-> "none", src |-> "peer"],
          [k |-> "frame", ch |-> 0, size |-> 188],
          [k |-> "frame", ch |-> 1, size |-> 13]}
MutBytes == {"0", "10", "13", "32", "36", "58", "255", "48", "57"}    \* NUL LF CR SP $ : 0xff '0' '9'
Lengths == {"2147483647", "2147483648", "4294967296", "99999999", "300000000", "9223372036854775807", "-1", "1e9", "0x10", " 12", "+5", "18446744073709551616"}
VARIABLE c
Init == \/ \E b \in Bases : c = [base |-> b, fault |-> "truncate", val |-> ""]
        \/ \E b \in Bases, v \in MutBytes : c = [base |-> b, fault |-> "mutate", val |-> v]
        \/ \E v \in {"first", "header", "status"} : c = [base |-> CHOOSE b \in Bases : b.k = "req", fault |-> "longline", val |-> v]
        \/ c = [base |-> CHOOSE b \in Bases : b.k = "req", fault |-> "manylines", val |-> ""]
        \/ \E v \in Lengths, k \in {"req", "resp"} : c = [base |-> CHOOSE b \in Bases : b.k = k, fault |-> "biglength", val |-> v]
        \/ \E s \in 1..400 : c = [base |-> CHOOSE b \in Bases : b.k = "req", fault |-> "garbage", val |-> ToString(s)]
        \/ \E n \in 0..11 : c = [base |-> CHOOSE b \in Bases : b.k = "frame", fault |-> "shortrtp", val |-> ToString(n)]
Next == UNCHANGED c
Emit == PrintT(<<"@X", ToJson(c)>>)
================================================================================
