------------------------------- MODULE WireReader -------------------------------
(* C14 - the connection reader as a design: what is on the wire is a concatenation of messages

     frame      '$' channel length(2)  payload(length)
     request /  start line, header lines, empty line, body of Content-Length bytes
     response

   and it arrives in chunks of any size.  The reader (service/rtsp receive -> ReadPacket / ReadRequest / ReadResponse
   on a bufio.Reader) peeks four bytes to choose the kind, then consumes exactly one message.  Bytes are abstract:
   a message is [kind, head, body] (head = bytes up to and including the empty line, or the 4-byte frame prefix; body =
   Content-Length or frame length), the wire is the sequence of messages, `arrived` counts the bytes the network has
   delivered, `pos` the bytes the reader has consumed.

   Body = "full"    the body is read with io.ReadFull: the reader waits for all of it            (the repository)
   Body = "single"  the body is read with one Read: whatever has arrived is taken for the body      (negative control;
                    this is the seeded change C14-3)
   MaxLine          head lengths above it are refused (the repository after fix 2bda9a1); 0 = no limit: the reader's
                    buffer grows with the head                                                       (negative control)

   Properties: Positioned (after every message the reader stands exactly at the next one), Faithful (what it yields
   is what was written, in order), Bounded (it never holds more than MaxLine + one chunk of an unfinished head). *)
EXTENDS Naturals, Sequences, FiniteSets, TLC
CONSTANTS Msgs,        \* the wire: a sequence of [kind, head, body]
          Chunks,      \* possible chunk sizes
          Body, MaxLine

MaxChunk == CHOOSE c \in Chunks : \A d \in Chunks : d <= c
Total == LET RECURSIVE S(_) S(i) == IF i = 0 THEN 0 ELSE S(i - 1) + Msgs[i].head + Msgs[i].body IN S(Len(Msgs))
Start(i) == LET RECURSIVE S(_) S(k) == IF k = 0 THEN 0 ELSE S(k - 1) + Msgs[k].head + Msgs[k].body IN S(i - 1)

VARIABLES arrived,   \* bytes delivered by the network so far
          pos,       \* bytes consumed by the reader
          cur,       \* index of the message the reader believes it is in
          phase,     \* "peek" | "head" | "body" | "refused" | "lost"
          yielded,   \* sequence of [i, head, body] handed to the session
          held       \* bytes of an unfinished head the reader has buffered
vars == <<arrived, pos, cur, phase, yielded, held>>

Init == arrived = 0 /\ pos = 0 /\ cur = 1 /\ phase = "peek" /\ yielded = <<>> /\ held = 0

Arrive == \E k \in Chunks : arrived < Total /\ arrived' = (IF arrived + k > Total THEN Total ELSE arrived + k)
          /\ UNCHANGED <<pos, cur, phase, yielded, held>>

\* Peek(4): needs four bytes (every message has at least four)
Peek == /\ phase = "peek" /\ cur <= Len(Msgs) /\ arrived >= pos + 4
        /\ phase' = "head" /\ held' = 0
        /\ UNCHANGED <<arrived, pos, cur, yielded>>

\* the head is consumed line by line as it arrives; an over-long one is refused when a limit exists
ReadHead == /\ phase = "head"
        /\ UNCHANGED arrived
        /\ LET m == Msgs[cur] avail == arrived - pos IN
           IF avail >= m.head
           THEN /\ pos' = pos + m.head /\ held' = 0
                /\ IF MaxLine > 0 /\ m.kind # "frame" /\ m.head > MaxLine
                   THEN phase' = "refused" /\ UNCHANGED <<cur, yielded>>
                   ELSE IF m.body = 0
                        THEN /\ yielded' = Append(yielded, [i |-> cur, head |-> m.head, body |-> 0])
                             /\ cur' = cur + 1 /\ phase' = "peek"
                        ELSE phase' = "body" /\ UNCHANGED <<cur, yielded>>
           ELSE \* not all there yet: what has arrived of the unfinished head is buffered
                \* (the reader pulls at most one buffer-full per step; the rest waits in the socket)
                /\ held' = (IF avail - held > MaxChunk THEN held + MaxChunk ELSE avail)
                /\ IF MaxLine > 0 /\ Msgs[cur].kind # "frame" /\ held' > MaxLine
                   THEN phase' = "refused" ELSE phase' = phase
                /\ UNCHANGED <<pos, cur, yielded>>

ReadBody == /\ phase = "body"
            /\ UNCHANGED <<arrived, held>>
            /\ LET m == Msgs[cur] avail == arrived - pos IN
               IF Body = "full"
               THEN /\ avail >= m.body
                    /\ pos' = pos + m.body
                    /\ yielded' = Append(yielded, [i |-> cur, head |-> m.head, body |-> m.body])
                    /\ cur' = cur + 1 /\ phase' = "peek"
               ELSE \* one Read: takes what is there (at least one byte), and believes that was the body
                    /\ avail >= 1
                    /\ LET n == IF avail >= m.body THEN m.body ELSE avail IN
                       /\ pos' = pos + n
                       /\ yielded' = Append(yielded, [i |-> cur, head |-> m.head, body |-> n])
                       /\ IF n = m.body THEN cur' = cur + 1 /\ phase' = "peek"
                          ELSE cur' = cur /\ phase' = "lost"       \* the rest of the body will be parsed as a message

Next == Arrive \/ Peek \/ ReadHead \/ ReadBody
Spec == Init /\ [][Next]_vars /\ WF_vars(Next)

Positioned == phase = "peek" => pos = Start(cur)
Faithful == \A k \in 1..Len(yielded) : yielded[k] = [i |-> k, head |-> Msgs[k].head, body |-> Msgs[k].body]
NeverLost == phase # "lost"
Bounded == MaxLine > 0 => held <= MaxLine + MaxChunk
\* without a limit the buffer must still not grow with the input: this is what the negative control violates
BoundedAlways == held <= 20 + 13
\* everything that was written is eventually yielded (unless the head is refused)
Done == (arrived = Total /\ phase = "peek" /\ cur > Len(Msgs)) \/ phase = "refused"
Progress == <>Done
=============================================================================
