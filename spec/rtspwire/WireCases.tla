------------------------------- MODULE WireCases -------------------------------
(* C14 - input space of the RTSP wire codec: what is on a connection is a concatenation of requests, responses and
   interleaved ('$') frames, delivered in some chunking.  A case is a sequence of message shapes plus a chunking
   class; the driver turns every shape into bytes (src "real": with the codec's own Write functions, i.e. what
   the server / pull client emit; src "peer": with an independent serialiser, i.e. what another implementation
   may send: other header-name case, repeated header lines, bare LF line ends, padding) and reads the stream
   back through the connection dispatcher.                                                              *)
EXTENDS Naturals, Sequences, FiniteSets, TLC, Json
CONSTANTS Mode          \* "single": every shape alone; "pair" / "triple": sequences over the reduced shape set

Chunkings == {"whole", "bytewise", "c7", "c4093", "boundary-1", "boundary+1"}
Urls == {"plain", "v6", "v6np", "port", "query", "star"}
Hdrs == {"min", "multi", "case", "unknown", "long", "empty"}
Bodies == {"none", "small", "big"}        \* 0, 46, 5000 bytes (the reader's buffer is 4096)
Reqs == {[k |-> "req", m |-> m, url |-> u, hdr |-> h, body |-> b, src |-> s] :
            m \in {"OPTIONS", "ANNOUNCE", "SETUP"}, u \in Urls, h \in Hdrs, b \in Bodies, s \in {"real", "peer"}}
ReqOK(r) == /\ (r.url = "star" => r.m = "OPTIONS")
            /\ (r.hdr \in {"multi", "case"} => r.src = "peer")      \* the codec's own writer cannot produce these
Resps == {[k |-> "resp", code |-> c, hdr |-> h, body |-> b, src |-> s] :
            c \in {200, 401, 454, 551}, h \in Hdrs, b \in Bodies, s \in {"real", "peer"}}
RespOK(r) == r.hdr \in {"multi", "case"} => r.src = "peer"
Frames == {[k |-> "frame", ch |-> c, size |-> z] : c \in 0..3, z \in {0, 1, 12, 13, 188, 4092, 4096, 65535}}
FrameOK(f) == (f.ch \in {0, 2}) => f.size >= 12        \* RTP channels carry RTP packets (12-byte header at least)
Shapes == {r \in Reqs : ReqOK(r)} \cup {r \in Resps : RespOK(r)} \cup {f \in Frames : FrameOK(f)}
\* reduced set for sequences: the default shape of each kind with one dimension varied at a time
Reduced == {r \in Reqs : ReqOK(r) /\ r.m = "SETUP" /\ ((r.url = "plain" /\ r.body = "none" /\ r.src = "peer") \/ (r.hdr = "min" /\ r.url \in {"plain", "v6"}))}
      \cup {r \in Resps : RespOK(r) /\ r.code = 200 /\ (r.hdr = "min" \/ (r.body = "none" /\ r.src = "peer"))}
      \cup {f \in Frames : FrameOK(f) /\ f.size \in {0, 12, 4092, 65535} /\ f.ch \in {0, 1}}
VARIABLE c
Init == \E g \in Chunkings :
          CASE Mode = "single" -> \E a \in Shapes : c = [msgs |-> <<a>>, chunk |-> g]
            [] Mode = "pair" -> \E a, b \in Reduced : c = [msgs |-> <<a, b>>, chunk |-> g]
            [] Mode = "triple" -> \E a, b, d \in Reduced : c = [msgs |-> <<a, b, d>>, chunk |-> g]
Next == UNCHANGED c
Emit == PrintT(<<"@W", ToJson(c)>>)
================================================================================
