CONSTANTS Carrier = "wsp"
 MaxHist = 3
 EmitAt = 3
INIT Init
NEXT Next
INVARIANTS Emit PlayingOnlyViaDescribeSetupPlay RecordingOnlyViaAnnounceSetupRecord
CHECK_DEADLOCK FALSE
