------------------------------- MODULE RtspSession -----------------------------
(* C12 - the RTSP session automaton as the statement describes it.
   One connection; requests are drawn from a finite alphabet of kinds; for every
   request the specification says what class of answer is required:
     "ok"      success (2xx)
     "455"     Method Not Valid In This State, and nothing changes
     "refuse"  any refusal (status >= 400) - the statement does not fix the code
     "any"     the statement does not decide (state after a refused SETUP, multicast)
   plus the data-plane obligations: interleaved frames only while playing over TCP,
   a published stream only while recording, everything released after TEARDOWN.
   hist carries the expectations so that TLC-generated request sequences can be
   replayed on a real connection and compared.                                   *)
EXTENDS Naturals, Sequences, FiniteSets, TLC, Json
CONSTANTS MaxHist, EmitAt,
          Carrier    \* "rtsp": RTSP over TCP or over WebSocket (service/rtsp)
                     \* "wsp":  RTSP requests wrapped in the WSP control channel, media on the WSP data channel (service/wsp):
                     \*         a player-only carrier - nothing can be announced or recorded, transports are interleaved TCP
                     \*         only, and PAUSE is a legal method while playing (delivery stops until the next PLAY)

Reqs == {"OPTIONS", "DESCRIBE_ok", "DESCRIBE_missing", "ANNOUNCE_ok", "ANNOUNCE_badsdp", "ANNOUNCE_noctype",
         "SETUP_v_tcp_play", "SETUP_a_tcp_play", "SETUP_v_udp_play", "SETUP_v_tcp_record", "SETUP_a_tcp_record",
         "SETUP_v_udp_record", "SETUP_v_bad", "SETUP_a_mcast_play", "PLAY", "RECORD", "PAUSE", "GET_PARAMETER", "TEARDOWN", "FOO"}

IsSetup(r) == r \in {"SETUP_v_tcp_play", "SETUP_a_tcp_play", "SETUP_v_udp_play", "SETUP_v_tcp_record", "SETUP_a_tcp_record",
                     "SETUP_v_udp_record", "SETUP_v_bad", "SETUP_a_mcast_play"}
SetupMode(r) == IF r \in {"SETUP_v_tcp_record", "SETUP_a_tcp_record", "SETUP_v_udp_record"} THEN "record" ELSE "play"
SetupTr(r) == IF r \in {"SETUP_v_udp_play", "SETUP_v_udp_record"} THEN "udp" ELSE "tcp"

VARIABLES st,    \* "init" | "ready" | "playing" | "recording" | "closed" | "open" (undecided after a refused SETUP)
          sdp,   \* "none" | "play" (DESCRIBE succeeded) | "record" (ANNOUNCE succeeded)
          tr,    \* transport of the last successful SETUP: "none" | "tcp" | "udp"
          dirty, \* a SETUP has been refused in this session: the statement does not say what later SETUPs must answer
          paused, \* wsp only: PAUSE was accepted while playing and no PLAY since
          hist
vars == <<st, sdp, tr, dirty, paused, hist>>

(* ---- what the statement requires for request r in the current state ---------- *)
ExpWsp(r) ==
  CASE r = "OPTIONS" -> "ok"
    [] r = "TEARDOWN" -> "ok"
    [] st = "open" -> "any"
    [] r = "PAUSE" -> IF st = "playing" THEN "ok" ELSE "refuse"
    [] r \in {"GET_PARAMETER", "FOO", "RECORD", "ANNOUNCE_ok", "ANNOUNCE_badsdp", "ANNOUNCE_noctype"} -> "refuse"     \* never legal on this carrier
    [] r \in {"DESCRIBE_ok", "DESCRIBE_missing"} ->
         IF st # "init" THEN "455" ELSE IF r = "DESCRIBE_ok" THEN "ok" ELSE "refuse"
    [] IsSetup(r) ->
         IF st = "playing" THEN "455"
         ELSE IF dirty # "no" THEN "any"
         ELSE IF sdp = "none" \/ r = "SETUP_v_bad" THEN "refuse"
         ELSE IF SetupMode(r) = "record" \/ SetupTr(r) # "tcp" \/ r = "SETUP_a_mcast_play" THEN "refuse"
         ELSE "ok"
    [] r = "PLAY" -> IF st \in {"ready", "playing"} /\ sdp = "play" /\ tr # "none"
                     THEN (IF dirty # "no" /\ st = "ready" THEN "any" ELSE "ok")
                     ELSE "455"

Exp(r) ==
  IF Carrier = "wsp" THEN ExpWsp(r) ELSE
  CASE r = "OPTIONS" -> "ok"
    [] r = "TEARDOWN" -> "ok"
    [] st = "open" -> "any"
    [] r \in {"PAUSE", "GET_PARAMETER", "FOO"} -> "refuse"                 \* never a legal method here
    [] r \in {"DESCRIBE_ok", "DESCRIBE_missing", "ANNOUNCE_ok", "ANNOUNCE_badsdp", "ANNOUNCE_noctype"} ->
         IF st # "init" THEN "455"
         ELSE IF r = "DESCRIBE_ok" /\ sdp # "record" THEN "ok"
         ELSE IF r = "ANNOUNCE_ok" /\ sdp # "play" THEN "ok"
         ELSE IF r \in {"DESCRIBE_ok", "ANNOUNCE_ok"} THEN "any"         \* describing after announcing (or v.v.): left open
         ELSE "refuse"
    [] IsSetup(r) ->
         IF st \in {"playing", "recording"} THEN "455"
         ELSE IF dirty # "no" THEN "any"
         ELSE IF sdp = "none" \/ r = "SETUP_v_bad" THEN "refuse"           \* no description yet / malformed transport
         ELSE IF r = "SETUP_a_mcast_play" THEN "refuse"                    \* the stream under test has no multicast source
         ELSE IF SetupMode(r) # sdp THEN (IF sdp = "play" THEN "refuse" ELSE "any")   \* record set-up of a described session is refused;
                                                                             \* a SETUP without mode=record in an announced session: left open
         ELSE IF sdp = "record" /\ SetupTr(r) # "tcp" THEN "refuse"        \* recording is TCP only
         ELSE "ok"
    [] r = "PLAY" -> IF st \in {"ready", "playing"} /\ sdp = "play" /\ tr # "none"
                     THEN (IF dirty # "no" /\ st = "ready" THEN "any" ELSE "ok")     \* a refused SETUP may have left another transport behind
                     ELSE "455"
    [] r = "RECORD" -> IF st \in {"ready", "recording"} /\ sdp = "record" /\ tr = "tcp"
                       THEN (IF dirty # "no" /\ st = "ready" THEN "any" ELSE "ok")
                       ELSE "455"

(* state after r, given that the answer was of the required class *)
Do(r) ==
  LET e == Exp(r) IN
  /\ CASE r = "TEARDOWN" -> st' = "closed" /\ UNCHANGED <<sdp, tr>>
       [] e = "any" -> st' = "open" /\ UNCHANGED <<sdp, tr>>
       [] e \in {"455"} -> UNCHANGED <<st, sdp, tr>>
       [] e = "refuse" -> UNCHANGED <<st, sdp, tr>>     \* a refused request is not a step of DESCRIBE -> SETUP -> PLAY / ANNOUNCE -> SETUP -> RECORD
       [] r = "OPTIONS" -> UNCHANGED <<st, sdp, tr>>
       [] r = "TEARDOWN" -> st' = "closed" /\ UNCHANGED <<sdp, tr>>
       [] r = "DESCRIBE_ok" -> sdp' = "play" /\ UNCHANGED <<st, tr>>
       [] r = "ANNOUNCE_ok" -> sdp' = "record" /\ UNCHANGED <<st, tr>>
       [] IsSetup(r) -> st' = "ready" /\ tr' = SetupTr(r) /\ sdp' = sdp
       [] r = "PLAY" -> st' = "playing" /\ UNCHANGED <<sdp, tr>>
       [] r = "PAUSE" -> UNCHANGED <<st, sdp, tr>>                       \* wsp: still playing, delivery suspended
       [] r = "RECORD" -> st' = "recording" /\ UNCHANGED <<sdp, tr>>
  \* remembers WHICH request was refused last: a refused SETUP may leave a transport behind, and a refused DESCRIBE /
  \* ANNOUNCE of another path may change the path the session remembers (the statement says the connection stays
  \* usable and that a 455 changes nothing; it does not say a 404 / 400 leaves the remembered description alone)
  /\ dirty' = (IF e = "refuse" /\ ((IsSetup(r) /\ sdp # "none") \/ (r \in {"DESCRIBE_missing", "ANNOUNCE_badsdp", "ANNOUNCE_noctype"} /\ sdp # "none"))
               THEN r ELSE dirty)
  /\ paused' = (IF Carrier = "wsp" /\ e = "ok" /\ r = "PAUSE" THEN TRUE
                ELSE IF e = "ok" /\ r = "PLAY" THEN FALSE ELSE paused)
  /\ hist' = Append(hist, [req |-> r, exp |-> e,
                           frames |-> (st' = "playing" /\ tr' = "tcp" /\ ~paused'),      \* interleaved media allowed after this answer
                           published |-> (st' = "recording"),                 \* the announced path resolves to a stream
                           consuming |-> (st' = "playing")])                  \* the session holds a consumer of /live

Init == st = "init" /\ sdp = "none" /\ tr = "none" /\ dirty = "no" /\ paused = FALSE /\ hist = <<>>
Next == /\ Len(hist) < MaxHist /\ st # "closed"
        /\ \E r \in Reqs : Do(r)

Emit == (Len(hist) >= EmitAt \/ (st = "closed" /\ Len(hist) > 0)) => PrintT(<<"@H", ToJson(hist)>>)
View == <<st, sdp, tr, dirty, paused>>
EmitEdge == PrintT(<<"@H", ToJson(hist')>>)

(* ---- the statement as invariants of this automaton ------------------------------ *)
PlayingOnlyViaDescribeSetupPlay == st = "playing" => (sdp = "play" /\ tr # "none")
RecordingOnlyViaAnnounceSetupRecord == st = "recording" => (sdp = "record" /\ tr = "tcp" /\ Carrier # "wsp")
================================================================================
