CONSTANTS Carrier = "wsp"
 MaxHist = 12
 EmitAt = 12
INIT Init
NEXT Next
INVARIANTS Emit PlayingOnlyViaDescribeSetupPlay RecordingOnlyViaAnnounceSetupRecord
CHECK_DEADLOCK FALSE
