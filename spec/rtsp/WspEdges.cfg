CONSTANTS Carrier = "wsp"
 MaxHist = 40
 EmitAt = 99
INIT Init
NEXT Next
VIEW View
INVARIANTS PlayingOnlyViaDescribeSetupPlay RecordingOnlyViaAnnounceSetupRecord
ACTION_CONSTRAINT EmitEdge
CHECK_DEADLOCK FALSE
