CONSTANTS MaxUnits = 2
 Kinds = {"single", "agg2", "fu2", "fu3"}
INIT Init
NEXT Next
INVARIANTS InOrderOnce NoLossNoDrop MustWithinMay Emit
CHECK_DEADLOCK FALSE
