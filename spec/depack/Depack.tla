--------------------------------- MODULE Depack --------------------------------
(* C06 - RTP depacketisation.  A sender packetises a sequence of units (NAL
   units / AAC access units): alone in a packet, aggregated with the following
   unit(s) (STAP-A / AP / several AUs), or fragmented into 2..4 FU packets.  The
   network may lose fragments of fragmented units and swap two adjacent packets.
   The receiver of the statement:
     - emits exactly the units all of whose packets arrived, in order, each once;
     - "If a fragment of a fragmented unit is missing, that unit is dropped as a
       whole; a truncated or spliced unit is never emitted."
   The state machine below is that receiver; every behaviour (packetisation plan +
   fault plan) is printed with the units it must emit and replayed on
   av/format/rtp with bytes produced by an independent packetiser.             *)
EXTENDS Naturals, Sequences, FiniteSets, TLC, Json
CONSTANTS MaxUnits, Kinds        \* Kinds \subseteq {"single", "agg2", "agg3", "fu2", "fu3", "fu4"}

FuN(k) == CASE k = "fu2" -> 2 [] k = "fu3" -> 3 [] k = "fu4" -> 4 [] OTHER -> 0
AggN(k) == CASE k = "agg2" -> 2 [] k = "agg3" -> 3 [] OTHER -> 1

VARIABLES plan,     \* sequence of packetisation kinds; an aggN entry stands for N units in one packet
          pkts,     \* the packets, in sending order: [units |-> sequence of unit ids, frag |-> 0 | index, of |-> count, seq |-> n]
          lost,     \* set of packet positions that are lost
          swap,     \* 0 or position i: packets i and i+1 arrive swapped
          phase
vars == <<plan, pkts, lost, swap, phase>>

RECURSIVE Build(_, _, _)
Build(pl, unit, seq) ==        \* packets for plan pl, first unit id `unit`, first sequence number `seq`
  IF pl = <<>> THEN <<>>
  ELSE LET k == Head(pl) IN
       IF FuN(k) > 0
       THEN [i \in 1..FuN(k) |-> [units |-> <<unit>>, frag |-> i, of |-> FuN(k), seq |-> seq + i - 1]]
            \o Build(Tail(pl), unit + 1, seq + FuN(k))
       ELSE << [units |-> [j \in 1..AggN(k) |-> unit + j - 1], frag |-> 0, of |-> 0, seq |-> seq] >>
            \o Build(Tail(pl), unit + AggN(k), seq + 1)

Plans == UNION {[1..n -> Kinds] : n \in 1..MaxUnits}

Init == /\ plan \in Plans /\ pkts = Build(plan, 1, 1) /\ lost = {} /\ swap = 0 /\ phase = "faults"
(* choose the faults: any set of lost FU fragments, at most one adjacent swap that involves an FU fragment *)
ChooseFaults ==
  /\ phase = "faults"
  /\ \E L \in SUBSET {i \in 1..Len(pkts) : pkts[i].frag > 0} :
     \E s \in {0} \cup {i \in 1..(Len(pkts) - 1) : pkts[i].frag > 0 \/ pkts[i + 1].frag > 0} :
        /\ lost' = L /\ swap' = s
  /\ phase' = "done" /\ UNCHANGED <<plan, pkts>>
Next == ChooseFaults

(* ---- the receiver of the statement ------------------------------------------ *)
Arrivals ==       \* positions in arrival order, lost ones removed
  LET order == [i \in 1..Len(pkts) |-> IF swap # 0 /\ i = swap THEN swap + 1 ELSE IF swap # 0 /\ i = swap + 1 THEN swap ELSE i]
  IN SelectSeq(order, LAMBDA i : i \notin lost)
RECURSIVE Receive(_, _, _, _)
Receive(arr, curUnit, nextFrag, lastSeq) ==    \* returns the sequence of emitted unit ids
  IF arr = <<>> THEN <<>>
  ELSE LET p == pkts[Head(arr)] IN
       IF p.frag = 0 THEN p.units \o Receive(Tail(arr), 0, 0, p.seq)             \* whole units: emitted; a unit in progress is abandoned
       ELSE IF p.frag = 1 THEN Receive(Tail(arr), p.units[1], 2, p.seq)          \* a start fragment begins a unit
       ELSE IF curUnit = p.units[1] /\ nextFrag = p.frag /\ p.seq = lastSeq + 1
            THEN (IF p.frag = p.of THEN p.units \o Receive(Tail(arr), 0, 0, p.seq)
                  ELSE Receive(Tail(arr), curUnit, nextFrag + 1, p.seq))
       ELSE Receive(Tail(arr), 0, 0, p.seq)                                      \* gap or stray fragment: drop, emit nothing
Emitted == Receive(Arrivals, 0, 0, 0)

(* The statement fixes the no-fault case and the missing-fragment case.  When packets are merely re-ordered a
   receiver may still deliver a fragmented unit whose fragments all arrived in fragment order (another packet
   having slipped in between) - or drop it.  May: the units a receiver is allowed to emit; Emitted (above) the
   ones it must.                                                                                          *)
UnitsOf == UNION {{pkts[i].units[j] : j \in 1..Len(pkts[i].units)} : i \in 1..Len(pkts)}
PosIn(arr, i) == CHOOSE k \in 1..Len(arr) : arr[k] = i
May == {u \in UnitsOf :
          LET ps == {i \in 1..Len(pkts) : u \in {pkts[i].units[j] : j \in 1..Len(pkts[i].units)}} IN
          /\ ps \cap lost = {}
          /\ \A i, j \in ps : i < j => PosIn(Arrivals, i) < PosIn(Arrivals, j)}
MustWithinMay == \A i \in 1..Len(Emitted) : Emitted[i] \in May
(* sanity of the receiver itself *)
InOrderOnce == \A i, j \in 1..Len(Emitted) : i < j => Emitted[i] < Emitted[j]
NoLossNoDrop == (lost = {} /\ swap = 0) => Len(Emitted) = (IF pkts = <<>> THEN 0 ELSE pkts[Len(pkts)].units[Len(pkts[Len(pkts)].units)])
Emit == phase = "done" =>
          PrintT(<<"@D", ToJson([plan |-> plan, pkts |-> pkts, lost |-> lost, swap |-> swap, arrivals |-> Arrivals, emitted |-> Emitted, may |-> May])>>)
================================================================================
