CONSTANTS MaxUnits = 3
 Kinds = {"single", "agg2", "agg3"}
INIT Init
NEXT Next
INVARIANTS InOrderOnce NoLossNoDrop MustWithinMay Emit
CHECK_DEADLOCK FALSE
