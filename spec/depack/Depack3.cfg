CONSTANTS MaxUnits = 3
 Kinds = {"single", "agg2", "agg3", "fu2", "fu3", "fu4"}
INIT Init
NEXT Next
INVARIANTS InOrderOnce NoLossNoDrop MustWithinMay Emit
CHECK_DEADLOCK FALSE
