SPECIFICATION Spec
CONSTANTS
 Writers <- MCWriters
 LockFirst <- MCLockFirst
 ConnOf <- MCConnOf
 Fails <- MCFails
 Bufs <- MCBufs
 MaxMsgs = 2
 Mode = "double"
INVARIANTS WireFaithful
CHECK_DEADLOCK FALSE
