SPECIFICATION Spec
CONSTANTS
 Writers <- MCWriters
 LockFirst <- MCLockFirst
 ConnOf <- MCConnOf
 Fails <- MCFails
 Bufs <- MCBufs
 MaxMsgs = 2
 Mode = "after"
INVARIANTS Exclusive WireFaithful OneWriterPerConn
CHECK_DEADLOCK FALSE
