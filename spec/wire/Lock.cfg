CONSTANTS NFrames = 2
 NResps = 2
 LockFrame = TRUE
 LockResp = TRUE
 EmitMode = "final"
INIT Init
NEXT Next
INVARIANTS WireOK Emit
CHECK_DEADLOCK FALSE
