CONSTANTS NFrames = 2
 NResps = 2
 FlushInLock = TRUE
 Cap = 6
INIT Init
NEXT Next
INVARIANTS WireOK Complete
CHECK_DEADLOCK FALSE
