CONSTANTS NFrames = 2
 NResps = 2
 LockFrame = FALSE
 LockResp = TRUE
 EmitMode = "none"
INIT Init
NEXT Next
INVARIANTS WireOK
CHECK_DEADLOCK FALSE
