---------------------------- MODULE MCPooledWrite ----------------------------
EXTENDS PooledWrite
MCWriters == {"resp", "media", "other"}
MCLockFirst == {"resp"}
MCConnOf == [w \in MCWriters |-> IF w = "other" THEN "b" ELSE "a"]
MCNoFails == {}
MCFails == {"other"}
MCBufs == 1..3
=============================================================================
