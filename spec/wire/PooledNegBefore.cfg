SPECIFICATION Spec
CONSTANTS
 Writers <- MCWriters
 LockFirst <- MCLockFirst
 ConnOf <- MCConnOf
 Fails <- MCNoFails
 Bufs <- MCBufs
 MaxMsgs = 2
 Mode = "before"
INVARIANTS WireFaithful
CHECK_DEADLOCK FALSE
