-------------------------------- MODULE WireTrace ------------------------------
(* Trace validation for C13: what a strict client parser read from a playing connection (ndjson,
   env VERIF_TRACE).  Records: begin (one execution: transport, requests sent), item (kind =
   response | frame | torn | other, with cseq for responses), end.
   Property: every item is a complete response or a complete interleaved frame (on WebSocket: every
   message is exactly one of them), and every request sent got exactly one response.          *)
EXTENDS Naturals, Sequences, FiniteSets, TLC, Json, IOUtils
Trace == ndJsonDeserialize(IOEnv.VERIF_TRACE)
VARIABLES l, want, seen, frames
Init == l = 0 /\ want = {} /\ seen = {} /\ frames = 0
Bad(e, why) == PrintT(<<"@BAD", ToJson([line |-> l', t |-> e.t, why |-> why, ev |-> e])>>)
Next ==
  /\ l < Len(Trace) /\ l' = l + 1
  /\ LET e == Trace[l'] IN
     CASE e.e = "begin" -> want' = {e.cseqs[i] : i \in 1..Len(e.cseqs)} /\ seen' = {} /\ frames' = 0
       [] e.e = "item" ->
            /\ want' = want
            /\ IF e.kind = "frame" THEN frames' = frames + 1 /\ seen' = seen
               ELSE IF e.kind = "response"
                    THEN /\ frames' = frames
                         /\ seen' = seen \cup {e.cseq}
                         /\ (IF e.cseq \notin seen THEN TRUE ELSE Bad(e, "C13:response-delivered-twice"))
               ELSE /\ Bad(e, "C13:torn-message") /\ UNCHANGED <<seen, frames>>
       [] e.e = "end" ->
            /\ UNCHANGED <<want, seen, frames>>
            /\ (IF want \subseteq seen THEN TRUE ELSE Bad(e, "C13:request-without-response"))
            /\ (IF frames > 0 THEN TRUE ELSE Bad(e, "C13:vacuous-no-media-frames"))
AllConsumed == TLCGet("stats").diameter = Len(Trace) + 1
================================================================================
