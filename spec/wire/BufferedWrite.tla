------------------------------ MODULE BufferedWrite -----------------------------
(* C13 - the connection's write buffer under the write lock.  Both writers of a playing RTSP/TCP session go through
   one bufio.Writer (network/socket/buffered): the request goroutine writes a response and flushes, the delivery
   goroutine writes '$' frames (prefix, payload).  bufio.Writer is not safe for concurrent use; its two operations
   are modelled at the grain where that matters:

     Write(x):  copy x to buf[n..]  ;  n := n + 1          (two steps)
     Flush:     emit buf[0..n)      ;  n := 0               (two steps)

   FlushInLock = TRUE is the code: Session.response holds lockW over write + flush.  With FALSE (the seeded change
   C13-3: "flush outside the lock so that media is not held up") a frame part copied between the two steps of Flush is
   lost or a stale slot is emitted again - the client sees a torn message.  Property: the wire is a concatenation of
   complete messages, each exactly once. *)
EXTENDS Naturals, Sequences, FiniteSets, TLC
CONSTANTS NFrames, NResps, FlushInLock, Cap

VARIABLES lk, buf, n, wire, pcM, pcR, fi, ri, mpart, fn
vars == <<lk, buf, n, wire, pcM, pcR, fi, ri, mpart, fn>>
Nil == <<"-", 0, "-">>
Init == lk = "free" /\ buf = [i \in 1..Cap |-> Nil] /\ n = 0 /\ wire = <<>> /\ pcM = "idle" /\ pcR = "idle" /\ fi = 0 /\ ri = 0
        /\ mpart = "prefix" /\ fn = 0

(* delivery goroutine: lock; Write(prefix); Write(payload); unlock (the socket flushes frames later, on its timer) *)
MLock == pcM = "idle" /\ fi < NFrames /\ lk = "free" /\ lk' = "media" /\ pcM' = "copy" /\ fi' = fi + 1 /\ mpart' = "prefix"
         /\ UNCHANGED <<buf, n, wire, pcR, ri, fn>>
MCopy == pcM = "copy" /\ n < Cap /\ buf' = [buf EXCEPT ![n + 1] = <<"f", fi, mpart>>] /\ pcM' = "adv"
         /\ UNCHANGED <<lk, n, wire, pcR, fi, ri, mpart, fn>>
MAdv  == pcM = "adv" /\ n' = n + 1 /\ UNCHANGED <<lk, buf, wire, pcR, fi, ri, fn>>
         /\ IF mpart = "prefix" THEN pcM' = "copy" /\ mpart' = "payload" ELSE pcM' = "unlock" /\ mpart' = mpart
MUnlock == pcM = "unlock" /\ lk' = "free" /\ pcM' = "idle" /\ UNCHANGED <<buf, n, wire, pcR, fi, ri, mpart, fn>>

(* request goroutine: lock; Write(response); [unlock;] Flush = emit, reset; [unlock] *)
RLock == pcR = "idle" /\ ri < NResps /\ lk = "free" /\ lk' = "resp" /\ pcR' = "copy" /\ ri' = ri + 1 /\ UNCHANGED <<buf, n, wire, pcM, fi, mpart, fn>>
RCopy == pcR = "copy" /\ n < Cap /\ buf' = [buf EXCEPT ![n + 1] = <<"r", ri, "all">>] /\ pcR' = "adv" /\ UNCHANGED <<lk, n, wire, pcM, fi, ri, mpart, fn>>
RAdv  == pcR = "adv" /\ n' = n + 1 /\ pcR' = (IF FlushInLock THEN "emit" ELSE "unlock1") /\ UNCHANGED <<lk, buf, wire, pcM, fi, ri, mpart, fn>>
RUnlock1 == pcR = "unlock1" /\ lk' = "free" /\ pcR' = "emit" /\ UNCHANGED <<buf, n, wire, pcM, fi, ri, mpart, fn>>
REmit == pcR = "emit" /\ wire' = wire \o [i \in 1..n |-> buf[i]] /\ fn' = n /\ pcR' = "reset" /\ UNCHANGED <<lk, buf, n, pcM, fi, ri, mpart>>
RReset == pcR = "reset" /\ n' = 0 /\ pcR' = (IF FlushInLock THEN "unlock2" ELSE "idle") /\ UNCHANGED <<lk, buf, wire, pcM, fi, ri, mpart, fn>>
RUnlock2 == pcR = "unlock2" /\ lk' = "free" /\ pcR' = "idle" /\ UNCHANGED <<buf, n, wire, pcM, fi, ri, mpart, fn>>
(* the socket's own flush at the end (timer / close): whatever is buffered goes out *)
FinalFlush == pcM = "idle" /\ pcR = "idle" /\ fi = NFrames /\ ri = NResps /\ n > 0
              /\ wire' = wire \o [i \in 1..n |-> buf[i]] /\ n' = 0 /\ UNCHANGED <<lk, buf, pcM, pcR, fi, ri, mpart, fn>>

Next == MLock \/ MCopy \/ MAdv \/ MUnlock \/ RLock \/ RCopy \/ RAdv \/ RUnlock1 \/ REmit \/ RReset \/ RUnlock2 \/ FinalFlush

WireOK == \A i \in 1..Len(wire) :
            /\ wire[i] # Nil
            /\ (wire[i][3] = "prefix" => (i = Len(wire) \/ wire[i + 1] = <<"f", wire[i][2], "payload">>))
            /\ (wire[i][3] = "payload" => (i > 1 /\ wire[i - 1] = <<"f", wire[i][2], "prefix">>))
            /\ \A j \in 1..Len(wire) : (wire[j] = wire[i]) => j = i
Done == pcM = "idle" /\ pcR = "idle" /\ fi = NFrames /\ ri = NResps /\ n = 0
Complete == Done => Len(wire) = 2 * NFrames + NResps
================================================================================
