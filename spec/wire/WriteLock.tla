-------------------------------- MODULE WriteLock ------------------------------
(* C13 - two writers on one RTSP/TCP connection in the playing state:
     "resp"  the request-handling goroutine (Session.response: lock, write the response, flush, unlock)
     "media" the delivery goroutine (tcpConsumer.Consume: lock, Packet.Write = 4-byte prefix, payload, unlock)
   wire is what the client reads: a sequence of parts <<message id, part>>.
   LockFrame / LockResp say whether the writer takes lockW around its whole message (TRUE = the code).
   Property: the wire is a concatenation of complete messages.                      *)
EXTENDS Naturals, Sequences, FiniteSets, TLC, Json
CONSTANTS NFrames, NResps, LockFrame, LockResp, EmitMode

VARIABLES pcM, pcR, lk, wire, fi, ri, hist
vars == <<pcM, pcR, lk, wire, fi, ri, hist>>

Init == pcM = "idle" /\ pcR = "idle" /\ lk = "free" /\ wire = <<>> /\ fi = 0 /\ ri = 0 /\ hist = <<>>
H(p) == hist' = Append(hist, p)

(* media writer *)
MLock   == pcM = "idle" /\ fi < NFrames /\ (LockFrame => lk = "free")
           /\ lk' = (IF LockFrame THEN "media" ELSE lk) /\ pcM' = "locked" /\ fi' = fi + 1 /\ UNCHANGED <<pcR, wire, ri>> /\ H("media")
MPrefix == pcM = "locked" /\ wire' = Append(wire, <<"f", fi, "prefix">>) /\ pcM' = "frame.prefix" /\ UNCHANGED <<pcR, lk, fi, ri>> /\ H("media")
MBody   == pcM = "frame.prefix" /\ wire' = Append(wire, <<"f", fi, "payload">>) /\ pcM' = "written" /\ UNCHANGED <<pcR, lk, fi, ri>> /\ H("media")
MUnlock == pcM = "written" /\ lk' = (IF LockFrame THEN "free" ELSE lk) /\ pcM' = "idle" /\ UNCHANGED <<pcR, wire, fi, ri>> /\ H("media")
(* response writer *)
RLock   == pcR = "idle" /\ ri < NResps /\ (LockResp => lk = "free")
           /\ lk' = (IF LockResp THEN "resp" ELSE lk) /\ pcR' = "locked" /\ ri' = ri + 1 /\ UNCHANGED <<pcM, wire, fi>> /\ H("resp")
RWrite  == pcR = "locked" /\ wire' = Append(wire, <<"r", ri, "all">>) /\ pcR' = "written" /\ UNCHANGED <<pcM, lk, fi, ri>> /\ H("resp")
RUnlock == pcR = "written" /\ lk' = (IF LockResp THEN "free" ELSE lk) /\ pcR' = "idle" /\ UNCHANGED <<pcM, wire, fi, ri>> /\ H("resp")

Next == MLock \/ MPrefix \/ MBody \/ MUnlock \/ RLock \/ RWrite \/ RUnlock

(* the client's strict parser: a frame prefix must be followed immediately by that frame's payload *)
WireOK == \A i \in 1..Len(wire) :
            wire[i][3] = "prefix" => (i = Len(wire) \/ wire[i + 1] = <<"f", wire[i][2], "payload">>)
Done == fi = NFrames /\ ri = NResps /\ pcM = "idle" /\ pcR = "idle"
Emit == (EmitMode = "final" /\ Done) => PrintT(<<"@S", ToJson(hist)>>)
================================================================================
