CONSTANTS NFrames = 2
 NResps = 2
 LockFrame = TRUE
 LockResp = FALSE
 EmitMode = "none"
INIT Init
NEXT Next
INVARIANTS WireOK
CHECK_DEADLOCK FALSE
