------------------------------ MODULE PooledWrite ------------------------------
(* C13 / C12 / C01 - the pooled message buffers of the WebSocket writers.

   Every WebSocket message (ws-rtsp responses and interleaved frames, WSP control replies and data frames) is first
   encoded into a *bytes.Buffer taken from a package-level sync.Pool and then written with one wsconn.Write, so that
   one message is exactly one response or one frame.  The writers of one connection are serialised by lockW, but the
   pool is shared by every goroutine of every session.  What keeps a message intact between "encoded" and "written"
   is ownership: a buffer is in the pool or owned by exactly one writer, and it goes back (once) only after the write.

       response writer  (Session.response)      lock ; get ; reset ; encode ; write ; put ; unlock      LockFirst
       media writer     (tcpConsumer.Consume,   get ; reset ; encode ; lock ; write ; unlock ; put
                         wsp Session.Consume)

   Mode = "after"    the buffer is returned after the write                       (the repository)
   Mode = "before"   the buffer is returned once the bytes are taken, before the write   (seeded changes C12-5, C13-5)
   Mode = "double"   a failed write returns the buffer, and so does the deferred Put      (seeded change C01-6)

   sync.Pool is modelled as a bag: Get returns any pooled buffer or a new one, Put adds one (also a second time).
   Properties: Exclusive (no buffer is owned by two writers, none is pooled while owned or pooled twice) and
   WireFaithful (what goes out for message n of writer w is what w encoded for it, whole).                          *)
EXTENDS Naturals, Sequences, FiniteSets, TLC
CONSTANTS Writers,      \* names
          LockFirst,    \* writers that take the connection's write lock before they get a buffer
          ConnOf,       \* function writer -> connection (writers of one connection share lockW)
          Fails,        \* writers whose first write fails (the peer has gone)
          Bufs,         \* buffer identities available to the allocator
          MaxMsgs, Mode

VARIABLES pc, held, n, pool, content, lockW, wire, failed
vars == <<pc, held, n, pool, content, lockW, wire, failed>>
Conns == {ConnOf[w] : w \in Writers}
NoBuf == 0

Init == /\ pc = [w \in Writers |-> "idle"] /\ held = [w \in Writers |-> NoBuf] /\ n = [w \in Writers |-> 0]
        /\ pool = [b \in Bufs |-> 0] /\ content = [b \in Bufs |-> <<>>]
        /\ lockW = [c \in Conns |-> "none"] /\ wire = <<>> /\ failed = {}

Owned(b) == {w \in Writers : held[w] = b /\ pc[w] \in {"got", "reset", "encoded", "writing"}}
\* a buffer the allocator may hand out as new: nobody refers to it
Fresh(b) == pool[b] = 0 /\ \A w \in Writers : held[w] # b

Lock(w) == /\ lockW[ConnOf[w]] = "none" /\ lockW' = [lockW EXCEPT ![ConnOf[w]] = w]
Unlock(w) == lockW' = [lockW EXCEPT ![ConnOf[w]] = "none"]

Start(w) == /\ pc[w] = "idle" /\ n[w] < MaxMsgs
            /\ IF w \in LockFirst THEN Lock(w) ELSE UNCHANGED lockW
            /\ pc' = [pc EXCEPT ![w] = "start"] /\ n' = [n EXCEPT ![w] = @ + 1]
            /\ UNCHANGED <<held, pool, content, wire, failed>>

Get(w) == /\ pc[w] = "start"
          /\ \E b \in Bufs :
               /\ (pool[b] > 0 \/ Fresh(b))
               /\ pool' = [pool EXCEPT ![b] = IF @ > 0 THEN @ - 1 ELSE 0]
               /\ held' = [held EXCEPT ![w] = b]
          /\ pc' = [pc EXCEPT ![w] = "got"]
          /\ UNCHANGED <<n, content, lockW, wire, failed>>

Reset(w) == /\ pc[w] = "got" /\ content' = [content EXCEPT ![held[w]] = <<>>]
            /\ pc' = [pc EXCEPT ![w] = "reset"] /\ UNCHANGED <<held, n, pool, lockW, wire, failed>>

\* the message is encoded in two pieces (start line + headers / prefix + payload): appended to whatever is there
Encode1(w) == /\ pc[w] = "reset" /\ content' = [content EXCEPT ![held[w]] = Append(@, <<w, n[w], 1>>)]
              /\ pc' = [pc EXCEPT ![w] = "half"] /\ UNCHANGED <<held, n, pool, lockW, wire, failed>>
Encode2(w) == /\ pc[w] = "half" /\ content' = [content EXCEPT ![held[w]] = Append(@, <<w, n[w], 2>>)]
              /\ pc' = [pc EXCEPT ![w] = "encoded"] /\ UNCHANGED <<held, n, pool, lockW, wire, failed>>

\* Mode "before": the bytes are taken (a slice of the buffer) and the buffer goes back at once
PutEarly(w) == /\ Mode = "before" /\ pc[w] = "encoded"
               /\ pool' = [pool EXCEPT ![held[w]] = @ + 1]
               /\ pc' = [pc EXCEPT ![w] = "released"] /\ UNCHANGED <<held, n, content, lockW, wire, failed>>

ToWrite(w) == /\ pc[w] = (IF Mode = "before" THEN "released" ELSE "encoded")
              /\ IF w \in LockFirst THEN UNCHANGED lockW ELSE Lock(w)
              /\ pc' = [pc EXCEPT ![w] = "writing"] /\ UNCHANGED <<held, n, pool, content, wire, failed>>

\* the socket write: what is in the buffer now goes out (or the peer has gone)
Write(w) == /\ pc[w] = "writing"
            /\ IF w \in Fails /\ w \notin failed
               THEN /\ failed' = failed \cup {w} /\ wire' = wire
                    /\ pool' = IF Mode = "double" THEN [pool EXCEPT ![held[w]] = @ + 1] ELSE pool   \* "give it back before the slow close"
               ELSE /\ wire' = Append(wire, [w |-> w, n |-> n[w], bytes |-> content[held[w]]]) /\ UNCHANGED <<failed, pool>>
            /\ pc' = [pc EXCEPT ![w] = "written"] /\ UNCHANGED <<held, n, content, lockW>>

Finish(w) == /\ pc[w] = "written" /\ Unlock(w)
             /\ pool' = IF Mode = "before" THEN pool ELSE [pool EXCEPT ![held[w]] = @ + 1]      \* the deferred Put
             /\ held' = [held EXCEPT ![w] = NoBuf] /\ pc' = [pc EXCEPT ![w] = "idle"]
             /\ UNCHANGED <<n, content, wire, failed>>

Next == \E w \in Writers : Start(w) \/ Get(w) \/ Reset(w) \/ Encode1(w) \/ Encode2(w) \/ PutEarly(w) \/ ToWrite(w) \/ Write(w) \/ Finish(w)
Spec == Init /\ [][Next]_vars

Exclusive == \A b \in Bufs : /\ Cardinality(Owned(b)) <= 1
                             /\ pool[b] <= 1
                             /\ pool[b] > 0 => Owned(b) = {}
WireFaithful == \A i \in 1..Len(wire) : wire[i].bytes = << <<wire[i].w, wire[i].n, 1>>, <<wire[i].w, wire[i].n, 2>> >>
\* writers of one connection never write at the same time
OneWriterPerConn == \A w1, w2 \in Writers : (w1 # w2 /\ ConnOf[w1] = ConnOf[w2]) => ~(pc[w1] = "writing" /\ pc[w2] = "writing")
Done == \A w \in Writers : pc[w] = "idle" /\ n[w] = MaxMsgs
=============================================================================
