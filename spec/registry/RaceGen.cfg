CONSTANTS FixSwap = FALSE
 EmitMode = "final"
INIT Init
NEXT Next
INVARIANTS Emit
CHECK_DEADLOCK FALSE
