CONSTANTS FixSwap = TRUE
 EmitMode = "none"
INIT Init
NEXT Next
INVARIANTS OneLive
CHECK_DEADLOCK FALSE
