-------------------------------- MODULE Registry -------------------------------
(* C05 - the stream registry (media/global.go) as the statement describes it.
   Sequential reference model; hist carries, after every operation, what the
   public API must report (Get for every spelling, Count, Infos, which stream
   objects are closed, which consumers were closed) so that TLC-generated
   histories can be replayed on the real package and compared step by step.

   Streams are objects created by media.NewStream; several objects can carry the
   same canonical path (a camera that re-publishes).                           *)
EXTENDS Naturals, Sequences, FiniteSets, TLC, Json
CONSTANTS MaxHist, EmitAt,
          Streams     \* {"s1", "s2", "s3"} (two generations of "/a" and a stream of "/b") or {"s1", "s2", "s4"}: three
                      \* generations of one path - a path taken over twice while the displaced streams still have consumers

PathOf(s) == IF s = "s3" THEN "/b" ELSE "/a"        \* s1 is created with "/a", s2 with " /A ", s4 with "/A" (same canonical path)
Paths == {"/a", "/b", "/c"}
Kinds == {"rtp", "flv"}
None == "none"

VARIABLES reg,        \* canonical path -> stream | None
          status,     \* stream -> "new" | "ok" | "closed"
          cons,       \* stream -> set of consumer kinds attached
          retiring,   \* stream -> a zero-consumer close task is pending for it
          hls,        \* stream -> "no" | "m3u8" | "segment": what an HLS client fetched last, recently
          hist
vars == <<reg, status, cons, retiring, hls, hist>>

Live(s) == status[s] = "ok"
Mapped == {p \in Paths : reg[p] # None}

(* what the API must answer in a state *)
Observe(r, st, cn) ==
  [get |-> [p \in Paths |-> r[p]],
   sc |-> Cardinality({p \in Paths : r[p] # None}),
   cc |-> LET S == {r[p] : p \in {p \in Paths : r[p] # None}} IN
          Cardinality({<<s, k>> \in Streams \X Kinds : s \in S /\ k \in cn[s]}),
   infos |-> {p \in Paths : r[p] # None},
   closed |-> {s \in Streams : st[s] = "closed"},
   attached |-> {<<s, k>> \in Streams \X Kinds : k \in cn[s]}]

Rec(op, s, k, flag) == hist' = Append(hist, [op |-> op, s |-> s, k |-> k, flag |-> flag, obs |-> Observe(reg', status', cons')])

(* closing a stream releases every consumer (C03) and the stream is never
   returned by lookup afterwards                                               *)
CloseEffect(S, r) == [p \in Paths |-> IF r[p] \in S THEN None ELSE r[p]]

(* "registering a new stream on a path retires the old one (closing it at once
   if it has no consumers)"                                                    *)
Regist(s) ==
  /\ status[s] \in {"new", "ok"}
  /\ LET p == PathOf(s)
         old == reg[p]
         closeOld == old # None /\ old # s /\ cons[old] = {}
     IN /\ reg' = [reg EXCEPT ![p] = s]
        /\ status' = [status EXCEPT ![s] = "ok", ![old] = IF closeOld THEN "closed" ELSE @]
        /\ retiring' = [retiring EXCEPT ![old] = IF old # None /\ old # s /\ ~closeOld THEN TRUE ELSE @]
        /\ cons' = cons /\ hls' = hls
  /\ Rec("regist", s, "", FALSE)

(* "unregistering a retired stream never removes its successor" *)
Unregist(s) ==
  /\ status[s] # "new"
  /\ reg' = CloseEffect({s}, reg)
  /\ status' = [status EXCEPT ![s] = "closed"]
  /\ cons' = [cons EXCEPT ![s] = {}]
  /\ retiring' = [retiring EXCEPT ![s] = FALSE] /\ hls' = hls
  /\ Rec("unregist", s, "", FALSE)

(* administrative delete / any direct Stream.Close(): "a closed ... stream is never returned by lookup" *)
Close(s) ==
  /\ status[s] = "ok"
  /\ reg' = CloseEffect({s}, reg)
  /\ status' = [status EXCEPT ![s] = "closed"]
  /\ cons' = [cons EXCEPT ![s] = {}]
  /\ retiring' = [retiring EXCEPT ![s] = FALSE] /\ hls' = hls
  /\ Rec("close", s, "", FALSE)

Attach(s, k) ==
  /\ status[s] = "ok" /\ k \notin cons[s]
  /\ cons' = [cons EXCEPT ![s] = @ \cup {k}]
  /\ UNCHANGED <<reg, status, retiring, hls>>
  /\ Rec("attach", s, k, FALSE)
(* C03: "including one that is attaching at that very moment": a consumer that attaches to a stream that
   has already ended is released at once (it never counts as attached)                           *)
AttachDead(s, k) ==
  /\ status[s] = "closed"
  /\ UNCHANGED <<reg, status, cons, retiring, hls>>
  /\ Rec("attach", s, k, TRUE)
Detach(s, k) ==
  /\ k \in cons[s]
  /\ cons' = [cons EXCEPT ![s] = @ \ {k}]
  /\ UNCHANGED <<reg, status, retiring, hls>>
  /\ Rec("detach", s, k, FALSE)

(* the periodic zero-consumer task of a retired stream: "closed for idleness only
   when it has no attached consumer of any protocol and no recent HLS access"  *)
HasHls(s) == s # "s3"          \* s3 is a video-only stream: no AAC audio, hence no HLS output
(* an HLS client fetches the playlist or a segment of s *)
HlsAccess(s, how) ==
  /\ HasHls(s) /\ status[s] = "ok"
  /\ hls' = [hls EXCEPT ![s] = how]
  /\ UNCHANGED <<reg, status, cons, retiring>>
  /\ Rec("hls", s, how, FALSE)
IdleTick(s) ==
  /\ retiring[s] /\ status[s] = "ok"
  /\ IF cons[s] = {} /\ hls[s] = "no"
     THEN /\ reg' = CloseEffect({s}, reg)
          /\ status' = [status EXCEPT ![s] = "closed"]
          /\ retiring' = [retiring EXCEPT ![s] = FALSE]
     ELSE UNCHANGED <<reg, status, retiring>>
  /\ cons' = cons /\ hls' = hls
  /\ Rec("idle", s, hls[s], hls[s] # "no")

(* server shutdown: every stream ends, the retired ones included (C03 names shutdown among the reasons a stream ends) *)
Shutdown ==
  /\ \E s \in Streams : status[s] = "ok"
  /\ reg' = [p \in Paths |-> None]
  /\ status' = [s \in Streams |-> IF status[s] = "ok" THEN "closed" ELSE status[s]]
  /\ cons' = [s \in Streams |-> {}]
  /\ retiring' = [s \in Streams |-> FALSE] /\ hls' = hls
  /\ Rec("shutdown", "s1", "", FALSE)

Init == /\ reg = [p \in Paths |-> None] /\ status = [s \in Streams |-> "new"]
        /\ cons = [s \in Streams |-> {}] /\ retiring = [s \in Streams |-> FALSE] /\ hls = [s \in Streams |-> "no"] /\ hist = <<>>
Next == /\ Len(hist) < MaxHist
        /\ \/ Shutdown
           \/ \E s \in Streams : \/ Regist(s) \/ Unregist(s) \/ Close(s)
                                 \/ \E k \in Kinds : Attach(s, k) \/ Detach(s, k) \/ AttachDead(s, k)
                                 \/ IdleTick(s)
                                 \/ \E how \in {"m3u8", "segment"} : HlsAccess(s, how)

Emit == (Len(hist) >= EmitAt) => PrintT(<<"@H", ToJson([hist |-> hist])>>)

(* ---- the statement as invariants of the reference model -------------------- *)
OneLivePerPath == \A p \in Paths : reg[p] # None => (Live(reg[p]) /\ PathOf(reg[p]) = p)
NeverReturnsClosed == \A p \in Paths : reg[p] # None => status[reg[p]] = "ok"
(* a live stream that is registered-but-not-mapped is retiring *)
LiveUnmappedIsRetiring == \A s \in Streams : (Live(s) /\ reg[PathOf(s)] # s) => retiring[s]
View == <<reg, status, cons, retiring, hls>>
EmitEdge == PrintT(<<"@H", ToJson([hist |-> hist'])>>)
\* first (BFS-shortest) history per class of step: the operation and, before it, every stream's status, whether it has
\* consumers and whether it is the mapped one (needs -workers 1 and INIT InitR)
StepClass == LET h == hist'[Len(hist')] IN
             <<h.op, h.s, h.k, h.flag, status, [s \in Streams |-> cons[s] # {}], [s \in Streams |-> reg[PathOf(s)] = s]>>
EmitClass == IF StepClass \in TLCGet(1) THEN TRUE
             ELSE TLCSet(1, TLCGet(1) \cup {StepClass}) /\ PrintT(<<"@H", ToJson([hist |-> hist'])>>)
InitR == Init /\ TLCSet(1, {})
================================================================================
