CONSTANTS Streams = {"s1", "s2", "s3"}
 MaxHist = 4
 EmitAt = 4
INIT Init
NEXT Next
INVARIANTS Emit OneLivePerPath NeverReturnsClosed LiveUnmappedIsRetiring
CHECK_DEADLOCK FALSE
