CONSTANTS Streams = {"s1", "s2", "s3"}
 MaxHist = 3
 EmitAt = 3
INIT Init
NEXT Next
INVARIANTS Emit OneLivePerPath NeverReturnsClosed LiveUnmappedIsRetiring
CHECK_DEADLOCK FALSE
