-------------------------------- MODULE RaceTrace ------------------------------
(* Validation of the final observations of racing registrations on the real
   registry (one ndjson record per execution, env VERIF_TRACE): once both calls
   have returned, exactly one stream is mapped under the path, it is live, and
   every other stream object that was created for the path is closed.          *)
EXTENDS Naturals, Sequences, FiniteSets, TLC, Json, IOUtils
Trace == ndJsonDeserialize(IOEnv.VERIF_TRACE)
SetOf(q) == {q[i] : i \in 1..Len(q)}
OneLive(r) == /\ r.mapped # "none"
              /\ SetOf(r.live) = {r.mapped}
VARIABLE l
Init == l = 0
Next == /\ l < Len(Trace) /\ l' = l + 1
        /\ IF OneLive(Trace[l']) THEN TRUE ELSE PrintT(<<"@BAD", ToJson([line |-> l', rec |-> Trace[l']])>>)
AllConsumed == TLCGet("stats").diameter = Len(Trace) + 1
================================================================================
