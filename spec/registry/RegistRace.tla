------------------------------- MODULE RegistRace ------------------------------
(* C05, racing part: two publishers (or two on-demand pulls) register stream
   objects for the same path concurrently.  media.Regist at the grain of its
   hook points:
     code as found :  old := Load(path); [regist.loaded]  Store(path, s); [regist.stored]  retire(old)
     FixSwap       :  old := Swap(path, s);   [regist.loaded] [regist.stored]  retire(old)
   retire(old) = close it at once when it has no consumers (none here).
   Property: once both calls have returned exactly one of the two streams is
   mapped and live and the other one is closed.                                *)
EXTENDS Naturals, Sequences, FiniteSets, TLC, Json
CONSTANTS FixSwap, EmitMode
Procs == {"r1", "r2"}
StreamOf(p) == IF p = "r1" THEN "s1" ELSE "s2"
None == "none"
VARIABLES pc, reg, seen, closed, hist
vars == <<pc, reg, seen, closed, hist>>

Init == pc = [p \in Procs |-> "start"] /\ reg = None /\ seen = [p \in Procs |-> None] /\ closed = {} /\ hist = <<>>

Begin(p) == /\ pc[p] = "start"
            /\ seen' = [seen EXCEPT ![p] = reg]
            /\ reg' = IF FixSwap THEN StreamOf(p) ELSE reg
            /\ pc' = [pc EXCEPT ![p] = "regist.loaded"]
            /\ closed' = closed /\ hist' = Append(hist, p)
Store(p) == /\ pc[p] = "regist.loaded"
            /\ reg' = IF FixSwap THEN reg ELSE StreamOf(p)
            /\ pc' = [pc EXCEPT ![p] = "regist.stored"]
            /\ UNCHANGED <<seen, closed>> /\ hist' = Append(hist, p)
Retire(p) == /\ pc[p] = "regist.stored"
             /\ closed' = IF seen[p] # None THEN closed \cup {seen[p]} ELSE closed
             /\ pc' = [pc EXCEPT ![p] = "done"]
             /\ UNCHANGED <<reg, seen>> /\ hist' = Append(hist, p)
Next == \E p \in Procs : Begin(p) \/ Store(p) \/ Retire(p)

Done == \A p \in Procs : pc[p] = "done"
OneLive == Done => /\ reg \in {"s1", "s2"} /\ reg \notin closed
                   /\ ({"s1", "s2"} \ {reg}) \subseteq closed
Emit == (EmitMode = "final" /\ Done) => PrintT(<<"@S", ToJson(hist)>>)
================================================================================
