CONSTANTS Streams = {"s1", "s2", "s3"}
 MaxHist = 30
 EmitAt = 99
INIT Init
NEXT Next
VIEW View
INVARIANTS OneLivePerPath NeverReturnsClosed LiveUnmappedIsRetiring
ACTION_CONSTRAINT EmitEdge
CHECK_DEADLOCK FALSE
