CONSTANTS Streams = {"s1", "s2", "s3"}
 MaxHist = 12
 EmitAt = 12
INIT Init
NEXT Next
INVARIANTS Emit OneLivePerPath NeverReturnsClosed LiveUnmappedIsRetiring
CHECK_DEADLOCK FALSE
