CONSTANTS Streams = {"s1", "s2", "s4"}
 MaxHist = 30
 EmitAt = 99
INIT InitR
NEXT Next
VIEW View
INVARIANTS OneLivePerPath NeverReturnsClosed LiveUnmappedIsRetiring
ACTION_CONSTRAINT EmitClass
CHECK_DEADLOCK FALSE
