------------------------------ MODULE PathTrace --------------------------------
(* Trace validation for C16: every line of the ndjson file named by the
   environment variable VERIF_TRACE is one observation taken from the real
   auth package: right r, admin flag, stream path p, verdict v.  A line in the
   compared domain must carry the verdict PathPattern!Permits gives.          *)
EXTENDS PathPattern, TLC, Json, IOUtils
Trace == ndJsonDeserialize(IOEnv.VERIF_TRACE)
VARIABLE i
Compared(t) == WFRight(t.r, t.admin) /\ WFPath(t.p)
Accept(t) == Compared(t) => (Permits(t.r, t.admin, t.p) = t.v)
Init == i = 0
Next == /\ i < Len(Trace)
        /\ i' = i + 1
        /\ LET t == Trace[i'] IN
             /\ IF Accept(t) THEN TRUE ELSE PrintT(<<"@BAD", ToJson([line |-> i', want |-> Permits(t.r, t.admin, t.p)])>>)
             /\ Compared(t) => PrintT(<<"@CMP", ToJson(i')>>)
AllConsumed == TLCGet("stats").diameter = Len(Trace) + 1
================================================================================
