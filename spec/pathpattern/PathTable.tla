------------------------------ MODULE PathTable --------------------------------
(* Generates, for every right string over RAlpha up to MaxR characters, the set
   of stream paths (over PAlpha, up to MaxP characters) the statement permits.
   One TLC state per (right, admin); one printed line per state.             *)
EXTENDS PathPattern, TLC, Json
CONSTANTS MaxR, MaxP
RAlpha == {"a", "B", "+", "*", "/", ";", " "}
PAlpha == {"A", "b", "/"}
Paths == {p \in SeqsUpTo(PAlpha, MaxP) : WFPath(p)}
Rights == SeqsUpTo(RAlpha, MaxR)

VARIABLES right, admin, stage
(* Two stages only so that TLC's workers share the enumeration: the initial
   states fix the first two characters, Next appends the rest and prints.    *)
Emit(r, a) == PrintT(<<"@R", ToJson([r |-> r, admin |-> a, wf |-> WFRight(r, a),
                                  ok |-> {p \in Paths : Permits(r, a, p)}])>>)
Init == /\ right \in SeqsUpTo(RAlpha, 2)
        /\ admin \in BOOLEAN
        /\ stage = "prefix"
Next == /\ stage = "prefix"
        /\ stage' = "full"
        /\ admin' = admin
        /\ \E suf \in SeqsUpTo(RAlpha, MaxR - 2) :
              /\ (Len(right) < 2 => suf = <<>>)
              /\ right' = right \o suf
              /\ Emit(right', admin')

(* sanity theorems about the specification itself, evaluated in every state  *)
StarAll == stage = "full" => ((Trim(right) = <<"*">>) => \A p \in Paths : Permits(right, admin, p))
EmptyNone == stage = "full" => ((right = <<>> /\ ~admin) => \A p \in Paths : ~Permits(right, admin, p))
AdminEmptyAll == stage = "full" => ((right = <<>> /\ admin) => \A p \in Paths : Permits(right, admin, p))
(* adding a pattern never removes a permission *)
Monotone == stage = "full" => (\A p \in Paths : Permits(right, FALSE, p) => Permits(right \o <<";", "a">>, FALSE, p))
CaseBlind == stage = "full" => (\A p \in Paths : Permits(right, FALSE, p) = Permits([i \in 1..Len(right) |-> Lower(right[i])], FALSE, p))
================================================================================
