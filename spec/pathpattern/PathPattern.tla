------------------------------ MODULE PathPattern ------------------------------
(* C16 - what a right string permits, written from the statement in
   properties.jsonl clause by clause.  Strings are sequences of one-character
   strings.  Nothing here looks at the implementation.                        *)
EXTENDS Naturals, Sequences, FiniteSets

Lower(c) == CASE c = "A" -> "a" [] c = "B" -> "b" [] OTHER -> c
IsLetter(c) == c \in {"a", "b", "A", "B"}

RECURSIVE Split(_, _)
Split(s, d) ==
  IF s = <<>> THEN << <<>> >>
  ELSE LET rest == Split(Tail(s), d) IN
       IF Head(s) = d THEN << <<>> >> \o rest
       ELSE << <<Head(s)>> \o Head(rest) >> \o Tail(rest)

RECURSIVE TrimL(_)
TrimL(s) == IF s # <<>> /\ Head(s) = " " THEN TrimL(Tail(s)) ELSE s
RECURSIVE TrimR(_)
TrimR(s) == IF s # <<>> /\ s[Len(s)] = " " THEN TrimR(SubSeq(s, 1, Len(s) - 1)) ELSE s
Trim(s) == TrimR(TrimL(s))

(* "A user's right string is a ';'-separated list of path patterns"          *)
Patterns(right) ==
  LET ps == Split(right, ";") IN
  SelectSeq([i \in 1..Len(ps) |-> Trim(ps[i])], LAMBDA p : p # <<>>)

(* segments of a pattern / of a stream path: an optional leading '/' is not a
   segment                                                                   *)
Segs(p) == Split(IF p # <<>> /\ Head(p) = "/" THEN Tail(p) ELSE p, "/")

(* "a literal segment matches itself" (case-insensitively), "'+' matches
   exactly one arbitrary segment"                                            *)
SegMatch(ps, s) ==
  \/ ps = <<"+">>
  \/ /\ Len(ps) = Len(s)
     /\ \A i \in 1..Len(ps) : Lower(ps[i]) = Lower(s[i])

(* "a trailing '*' matches zero or more remaining segments, '*' alone matches
   everything, and a pattern without trailing '*' matches only paths with the
   same number of segments"                                                  *)
Match(pat, path) ==
  LET P == Segs(pat)
      S == Segs(path)
      star == P[Len(P)] = <<"*">>
      Q == IF star THEN SubSeq(P, 1, Len(P) - 1) ELSE P
  IN /\ IF star THEN Len(S) >= Len(Q) ELSE Len(S) = Len(Q)
     /\ \A i \in 1..Len(Q) : SegMatch(Q[i], S[i])

(* "A path is permitted exactly when at least one pattern of the relevant
   right matches; an empty right permits nothing, except that an administrator
   with an empty right gets '*'"                                             *)
Permits(right, admin, path) ==
  LET r == IF admin /\ right = <<>> THEN <<"*">> ELSE right
      ps == Patterns(r)
  IN \E i \in 1..Len(ps) : Match(ps[i], path)

(* ---- the domain on which the statement gives a verdict ------------------ *)
(* pattern: optional '/', then segments; a segment is '+', a final '*', or a
   literal = any other non-empty run of letters / '+' / '*' characters (so
   'a*', '+a', '**' are literals: only a segment that IS '+' or '*' is a
   wildcard).  Left open by the statement and not compared: a segment that is
   exactly '*' before the end, empty segments, blanks inside a pattern.       *)
WFSeg(s, last) ==
  \/ s = <<"+">>
  \/ s = <<"*">> /\ last
  \/ s # <<>> /\ s # <<"*">> /\ \A i \in 1..Len(s) : IsLetter(s[i]) \/ s[i] \in {"+", "*"}
WFPattern(p) ==
  LET P == Segs(p) IN \A i \in 1..Len(P) : WFSeg(P[i], i = Len(P))
WFRight(right, admin) ==
  LET ps == Patterns(right) IN
  /\ \A i \in 1..Len(ps) : WFPattern(ps[i])
  /\ (admin /\ right # <<>>) => Len(ps) > 0      \* blank-only right of an admin: left open
(* stream path: '/' then non-empty letter segments                           *)
WFPath(path) ==
  /\ path # <<>> /\ Head(path) = "/"
  /\ LET S == Segs(path) IN \A i \in 1..Len(S) : S[i] # <<>> /\ \A j \in 1..Len(S[i]) : IsLetter(S[i][j])

SeqsUpTo(A, n) == UNION {[1..k -> A] : k \in 0..n}
================================================================================
