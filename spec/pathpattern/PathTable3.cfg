CONSTANTS MaxR = 3
  MaxP = 5
INIT Init
NEXT Next
INVARIANTS StarAll EmptyNone AdminEmptyAll Monotone CaseBlind
CHECK_DEADLOCK FALSE
