---------------------------------- MODULE Str ----------------------------------
(* Strings as sequences of one-character strings, with the few operations the
   table / path specifications need.                                          *)
EXTENDS Naturals, Sequences

Lower(c) == CASE c = "A" -> "a" [] c = "B" -> "b" [] c = "C" -> "c" [] c = "D" -> "d"
              [] c = "U" -> "u" [] c = "X" -> "x" [] OTHER -> c
LowerS(s) == [i \in 1..Len(s) |-> Lower(s[i])]

RECURSIVE TrimL(_)
TrimL(s) == IF s # <<>> /\ Head(s) = " " THEN TrimL(Tail(s)) ELSE s
RECURSIVE TrimR(_)
TrimR(s) == IF s # <<>> /\ s[Len(s)] = " " THEN TrimR(SubSeq(s, 1, Len(s) - 1)) ELSE s
Trim(s) == TrimR(TrimL(s))

IsPrefix(p, s) == Len(p) <= Len(s) /\ SubSeq(s, 1, Len(p)) = p

(* remove repeated '/' *)
RECURSIVE Collapse(_)
Collapse(s) == IF Len(s) < 2 THEN s
               ELSE IF s[1] = "/" /\ s[2] = "/" THEN Collapse(Tail(s))
               ELSE <<s[1]>> \o Collapse(Tail(s))

(* the canonical spelling of a stream path / route pattern: blanks trimmed,
   lower case, leading '/', no repeated '/', a trailing '/' is kept           *)
Canon(p) == LET t == LowerS(Trim(p)) IN
            IF t = <<>> THEN <<"/">>
            ELSE Collapse(IF Head(t) = "/" THEN t ELSE <<"/">> \o t)
================================================================================
