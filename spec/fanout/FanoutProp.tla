------------------------------- MODULE FanoutProp ------------------------------
(* Property-level specification for C01-C04: only what the statements talk
   about.  Pure operators over observations (what was published, what each
   consumer was handed, when it attached, whether its transport was closed);
   used both as invariants of the implementation-level model (MCFanout) and as
   the oracle of trace validation (FanoutTrace).                              *)
EXTENDS Integers, Sequences, FiniteSets
CONSTANTS Media,            \* "h264" | "h265" | "flv"
          Pkts,             \* kinds of the packets, in publication order
          CacheGop,
          ReplayVideoOnly   \* named deviation: the RTP caches keep video-channel packets only

IsPrefix(s, t) == Len(s) <= Len(t) /\ SubSeq(t, 1, Len(s)) = s
Range(s) == {s[i] : i \in 1..Len(s)}

RECURSIVE LastOf(_, _)
LastOf(k, kind) == IF k = 0 THEN 0 ELSE IF Pkts[k] = kind THEN k ELSE LastOf(k - 1, kind)

(* C02: "first receives the most recent codec parameter sets seen on the stream
   (SPS/PPS ...) and, when GOP caching is enabled, every packet from the start
   of the most recent key frame onward".  Parameter-set packets that arrive
   after the key frame are part of "the most recent parameter sets" and are not
   repeated in the GOP part (each packet at most once, C01).                   *)
HdrOrder == CASE Media = "h264" -> <<"sps", "pps">>
              [] Media = "h265" -> <<"vps", "sps", "pps">>
              [] OTHER -> <<"meta", "vsh", "ash">>
HdrKinds == {HdrOrder[i] : i \in 1..Len(HdrOrder)}
GopAt(k) ==
  LET key == LastOf(k, "key") IN
  IF ~CacheGop \/ key = 0 THEN <<>>
  ELSE SelectSeq([i \in 1..(k - key + 1) |-> key + i - 1],
                 LAMBDA i : Pkts[i] \notin HdrKinds /\ ((ReplayVideoOnly /\ Media # "flv") => Pkts[i] # "aud"))
RECURSIVE HdrsAt(_, _)
HdrsAt(k, n) == IF n > Len(HdrOrder) THEN <<>>
                ELSE (IF LastOf(k, HdrOrder[n]) # 0 THEN <<LastOf(k, HdrOrder[n])>> ELSE <<>>) \o HdrsAt(k, n + 1)
ReplayAt(k) == HdrsAt(k, 1) \o GopAt(k)
(* FLV: "presents the replayed headers with the timestamp of the first replayed media tag so the
   consumer's timeline starts at zero": position in the packet sequence of the tag whose timestamp
   the replayed header tags must carry (0: no media tag is replayed, the headers carry time 0)     *)
HeaderStampAt(k) == IF GopAt(k) = <<>> THEN 0 ELSE GopAt(k)[1]

(* what a consumer that attached "at k" is owed when `upto` packets have been published *)
Owed(k, upto) == ReplayAt(k) \o [i \in 1..(upto - k) |-> k + i]

(* C01 + C02: what consumer received (d) is, in order and without repeats or gaps,
   a prefix of what it is owed for SOME attach point k inside the bracket of its
   StartConsume call: lo = packets completely broadcast when the call began,
   hi = packets absorbed by the cache when it returned.                         *)
DeliveredOK(d, lo, hi, upto) ==
  d = <<>> \/ \E k \in lo..hi : IsPrefix(d, Owed(k, upto))
(* FLV: what a consumer was handed together with the timestamps it saw: live tags carry their own
   timestamp (1000 * position in this harness), replayed header tags the timestamp of the first
   replayed media tag                                                                          *)
TsOK(d, tss, k) ==
  \A j \in 1..Len(d) : tss[j] = (IF j <= Len(HdrsAt(k, 1)) THEN 1000 * HeaderStampAt(k) ELSE 1000 * d[j])
DeliveredOKT(d, tss, lo, hi, upto) ==
  d = <<>> \/ \E k \in lo..hi : IsPrefix(d, Owed(k, upto)) /\ (Media = "flv" => TsOK(d, tss, k))

(* ... and a consumer that was never stopped, on a stream that was never closed,
   once everything has drained, has received ALL of it                          *)
DeliveredAll(d, lo, hi, upto) ==
  \E k \in lo..hi : d = Owed(k, upto)

(* C04: "dropping begins and ends only at the start of a key frame, so after any
   drop the next video data it is given starts a key frame": the live part may
   have holes, but every hole starts at a key packet and is followed by one.   *)
Min(a, b) == IF a < b THEN a ELSE b
AlignedLive(live, k, upto) ==
  \A j \in 1..Len(live) :
    LET prev == IF j = 1 THEN k ELSE live[j - 1] IN
    /\ live[j] > prev /\ live[j] <= upto
    /\ live[j] # prev + 1 => (Pkts[prev + 1] = "key" /\ Pkts[live[j]] = "key")
DeliveredOKDrops(d, lo, hi, upto) ==
  d = <<>> \/ \E k \in lo..hi :
     LET r == ReplayAt(k)
         n == Min(Len(d), Len(r))
     IN /\ SubSeq(d, 1, n) = SubSeq(r, 1, n)
        /\ Len(d) > Len(r) => AlignedLive(SubSeq(d, Len(r) + 1, Len(d)), k, upto)

(* "For a stream whose video has a key frame at least every G packets the stalled
   consumer's backlog never exceeds the fixed limit plus one GOP plus the join
   replay".  G of a packet sequence: the largest distance from a position to the
   next key packet (only positions before the last key count).                 *)
KeyPos == {i \in 1..Len(Pkts) : Pkts[i] = "key"}
LastKey == IF KeyPos = {} THEN 0 ELSE CHOOSE i \in KeyPos : \A j \in KeyPos : j <= i
G == IF KeyPos = {} THEN 0
     ELSE LET next(i) == CHOOSE j \in KeyPos : j > i /\ \A m \in KeyPos : m > i => j <= m
          IN LET ds == {next(i) - i : i \in 0..(LastKey - 1)} IN CHOOSE d \in ds : \A e \in ds : e <= d
BacklogOK(qlen, maxq, replaylen, upto) == upto <= LastKey => qlen <= maxq + G + replaylen
================================================================================
