-------------------------------- MODULE ConvTrace --------------------------------
(* C03 - acceptor for the converter leg (env VERIF_TRACE):
     [e |-> "conv", t, kind, schedule ("close-in-window": Close ran while the goroutine stood between its loop condition
            and Pop; "close-while-parked"), ended]
     [e |-> "streams", t, cycles, left]       NewStream + Close cycles, converter goroutines left afterwards *)
EXTENDS Integers, Sequences, TLC, Json, IOUtils
Trace == ndJsonDeserialize(IOEnv.VERIF_TRACE)
VARIABLES l
Init == l = 0
Bad(e, why) == PrintT(<<"@BAD", ToJson([line |-> l', t |-> e.t, why |-> why, ev |-> e])>>)
Next == /\ l < Len(Trace) /\ l' = l + 1
        /\ LET e == Trace[l'] IN
           CASE e.e = "conv" -> IF e.ended THEN TRUE ELSE Bad(e, "C03:conversion-goroutine-remains-after-close")
             [] e.e = "streams" -> IF e.left = 0 THEN TRUE ELSE Bad(e, "C03:conversion-goroutines-remain-after-stream-close")
AllConsumed == TLCGet("stats").diameter = Len(Trace) + 1
=================================================================================
