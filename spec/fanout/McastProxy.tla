------------------------------ MODULE McastProxy ------------------------------
(* C03 / C01 - the multicast proxy of a stream (service/rtsp/multicast_proxy.go): all multicast players of a stream
   share ONE consumer of the stream.  The first member starts it (StartConsume), the last one to leave stops it
   (StopConsume), and when the consumer is closed - the stream ends, or the proxy stopped it itself - every member's
   connection is closed.

   The catch: stopping a consumer is asynchronous.  StopConsume only marks the consumption; its delivery goroutine
   notices, leaves its loop and THEN calls consumer.Close() - on the proxy object, which by that time may have been
   started again for a new member.

     Join(p)            AddMember: first member starts incarnation gen+1
     Leave(p)           ReleaseMember: last member stops the running incarnation (its exit is pending)
     Exit(g)            the delivery goroutine of incarnation g calls proxy.Close()
   Fix = FALSE          Close() shuts down whatever is running now                          (as found)
   Fix = TRUE           Close() coming from an incarnation that is no longer the current one is ignored

   NoCollateral: a player's connection is closed by the proxy only if that player left or the stream ended (the
   stream does not end in this model).                                                                            *)
EXTENDS Naturals, FiniteSets
CONSTANTS Players, Fix, MaxGen
VARIABLES members, running, gen, pending, closed, left
vars == <<members, running, gen, pending, closed, left>>

Init == members = {} /\ running = FALSE /\ gen = 0 /\ pending = {} /\ closed = {} /\ left = {}

Join(p) == /\ p \notin members /\ p \notin left /\ p \notin closed /\ gen < MaxGen
           /\ IF members = {} THEN running' = TRUE /\ gen' = gen + 1 ELSE UNCHANGED <<running, gen>>
           /\ members' = members \cup {p}
           /\ UNCHANGED <<pending, closed, left>>

\* what proxy.close() does: stop the consumer of the running incarnation, close every member
Shutdown == /\ running' = FALSE /\ pending' = pending \cup {gen}
            /\ closed' = closed \cup members /\ members' = {}

Leave(p) == /\ p \in members /\ left' = left \cup {p}
            /\ IF members = {p}
               THEN /\ running' = FALSE /\ pending' = pending \cup {gen} /\ members' = {} /\ closed' = closed
               ELSE /\ members' = members \ {p} /\ UNCHANGED <<running, pending, closed>>
            /\ UNCHANGED gen

Exit(g) == /\ g \in pending
           /\ IF running /\ (~Fix \/ g = gen)
              THEN /\ Shutdown /\ UNCHANGED <<gen, left>>          \* (pending' also gets the current gen; g stays pending-free below)
              ELSE /\ pending' = pending \ {g} /\ UNCHANGED <<members, running, gen, closed, left>>

Next == \E p \in Players : Join(p) \/ Leave(p)
        \/ \E g \in pending : Exit(g)
Spec == Init /\ [][Next]_vars

NoCollateral == closed \subseteq left
RunningIffMembers == (members # {}) => running
=============================================================================
