------------------------------- MODULE FanoutSteps -----------------------------
(* Implementation-level trace validation: the step trace of gated executions of
   the real media.Stream (after every schedule step the harness records where
   every process is parked, the consumer count, the number of registered
   consumers, the stream status, queue lengths and closed flags) is checked
   against the actions of Fanout.tla.  Constants come from the same cfg as the
   model, so one TLC run validates all executions of one scenario.
   An execution is accepted when some sequence of Fanout steps reproduces every
   recorded projection; executions that are not accepted are model drift
   (DESIGN.md section 1), never a verdict.                                     *)
EXTENDS MCFanout, IOUtils

Trace == ndJsonDeserialize(IOEnv.VERIF_TRACE)
VARIABLES l, lost
svars == <<vars, l, lost>>

Has(r, k) == k \in DOMAIN r
Matches(e) ==
  /\ \A p \in Procs : pc'[p] = e.pc[p]
  /\ count' = e.count
  /\ Cardinality(map') = e.mapped
  /\ (status' = "closed") = e.closed
  /\ \A c \in Cons : Has(e.qlen, c) => Len(q'[c]) = e.qlen[c]
  /\ \A c \in Cons : Has(e.cflag, c) => closedF'[c] = e.cflag[c]

Reset ==
  /\ pc' = [p \in Procs |-> IF p \in {G(c) : c \in Cons} THEN "idle" ELSE "start"]
  /\ status' = "ok" /\ cache' = EmptyCache /\ map' = {} /\ count' = 0
  /\ q' = [c \in Cons |-> <<>>] /\ closedF' = [c \in Cons |-> FALSE] /\ disc' = [c \in Cons |-> FALSE]
  /\ gitem' = [c \in Cons |-> NIL] /\ lk' = "free" /\ pi' = 1 /\ prange' = <<>> /\ crange' = <<>>
  /\ cur' = [p \in Procs |-> ""]
  /\ delivered' = [c \in Cons |-> <<>>] /\ tclosed' = [c \in Cons |-> 0]
  /\ cached' = 0 /\ sentAll' = 0
  /\ lo' = [c \in Cons |-> -1] /\ hi' = [c \in Cons |-> -1]
  /\ stopLate' = [c \in Cons |-> FALSE]
  /\ withheld' = [c \in Cons |-> <<>>]
  /\ hist' = <<>>

StepsInit == Init /\ l = 1 /\ lost = FALSE

Consume ==
  /\ l <= Len(Trace)
  /\ l' = l + 1
  /\ LET e == Trace[l] IN
     CASE e.e = "begin" -> Reset /\ lost' = FALSE
       [] e.e = "end" -> /\ UNCHANGED <<vars, lost>>
                         /\ (~lost => PrintT(<<"@OK", ToJson(e.t)>>))
       [] e.e = "step" ->
            IF lost \/ ~e.taken THEN UNCHANGED <<vars, lost>>
            ELSE \/ (Next /\ hist'[Len(hist')] = e.p /\ Matches(e) /\ lost' = FALSE)
                 \/ (lost' = TRUE /\ UNCHANGED vars)          \* give up on this execution from here on

StepsNext == Consume

(* debugging aid: no give-up branch, so the search depth is the first unexplained record *)
Strict ==
  /\ l <= Len(Trace)
  /\ l' = l + 1
  /\ LET e == Trace[l] IN
     CASE e.e = "begin" -> Reset /\ lost' = FALSE
       [] e.e = "end" -> UNCHANGED <<vars, lost>>
       [] e.e = "step" -> IF ~e.taken THEN UNCHANGED <<vars, lost>>
                          ELSE Next /\ hist'[Len(hist')] = e.p /\ Matches(e) /\ lost' = FALSE
StepsView == <<View, l, lost>>
================================================================================
