CONSTANTS
 Cons = {"c1", "c2"}
 Pkts <- PktsSKN
 CacheGop = TRUE
 MaxQ = 1000
 Stoppers = {}
 WithCloser = FALSE
 Panics = {}
 FixWake = FALSE
 FixAttach = FALSE
 FixCount = FALSE
 FixJoin = FALSE
 ReplayVideoOnly = TRUE
 EmitMode = "none"
INIT Init
NEXT Next
VIEW View
INVARIANTS Delivery Complete CountNonNegative Released OnlyTheStopped PublisherNeverBlocked LockHolderMoves
CHECK_DEADLOCK FALSE
