-------------------------------- MODULE ConvLoop --------------------------------
(* C03 - the converter goroutines (rtp.Demuxer.process, flv.Muxer.process, mpegts.Muxer.process) and their Close:

     process:  for !closed { x := queue.Pop() ; ... }        Pop: lock; if empty then cond.Wait; take; unlock
     Close:    closed := true ; wake

   Wake = "signal"  cond.Signal() without an element (as found): a signal sent while nobody waits is lost
   Wake = "push"    queue.Push(nil): the element is there whenever the goroutine gets to Pop      (the repository)
   Property: once Close has returned, the goroutine eventually ends (no state in which it is parked for good). *)
EXTENDS Naturals, Sequences, TLC
CONSTANTS Wake, NItems
VARIABLES pc,      \* goroutine: "check" | "pop" | "waiting" | "work" | "done"
          closed, queue, signalled, cl, sent
vars == <<pc, closed, queue, signalled, cl, sent>>
Init == pc = "check" /\ closed = FALSE /\ queue = <<>> /\ signalled = FALSE /\ cl = "idle" /\ sent = 0
\* the goroutine
Check == pc = "check" /\ pc' = (IF closed THEN "done" ELSE "pop") /\ UNCHANGED <<closed, queue, signalled, cl, sent>>
Pop == /\ pc = "pop"
       /\ IF queue = <<>> THEN pc' = "waiting" /\ signalled' = FALSE /\ queue' = queue
          ELSE pc' = "work" /\ queue' = Tail(queue) /\ signalled' = signalled
       /\ UNCHANGED <<closed, cl, sent>>
Woken == pc = "waiting" /\ signalled /\ signalled' = FALSE
         /\ (IF queue = <<>> THEN pc' = "work" /\ queue' = queue ELSE pc' = "work" /\ queue' = Tail(queue))   \* Pop takes what is there, or nil
         /\ UNCHANGED <<closed, cl, sent>>
Work == pc = "work" /\ pc' = "check" /\ UNCHANGED <<closed, queue, signalled, cl, sent>>
\* a producer
Send == sent < NItems /\ ~closed /\ sent' = sent + 1 /\ queue' = Append(queue, "item")
        /\ signalled' = (signalled \/ pc = "waiting") /\ UNCHANGED <<pc, closed, cl>>
\* Close
CloseMark == cl = "idle" /\ closed' = TRUE /\ cl' = "marked" /\ UNCHANGED <<pc, queue, signalled, sent>>
CloseWake == /\ cl = "marked" /\ cl' = "returned"
             /\ IF Wake = "push" THEN queue' = Append(queue, "nil") /\ signalled' = (signalled \/ pc = "waiting")
                ELSE queue' = queue /\ signalled' = (signalled \/ pc = "waiting")     \* a signal reaches only a waiter
             /\ UNCHANGED <<pc, closed, sent>>
Next == Check \/ Pop \/ Woken \/ Work \/ Send \/ CloseMark \/ CloseWake
Spec == Init /\ [][Next]_vars /\ WF_vars(Check) /\ WF_vars(Pop) /\ WF_vars(Woken) /\ WF_vars(Work) /\ WF_vars(CloseMark) /\ WF_vars(CloseWake)
\* parked with nothing left that could wake it
ParkedForGood == pc = "waiting" /\ ~signalled /\ cl = "returned" /\ queue = <<>> /\ sent = NItems
NeverParkedForGood == ~ParkedForGood
Ends == (cl = "returned") ~> (pc = "done")
=================================================================================
