CONSTANTS Wake = "push"
 NItems = 2
SPECIFICATION Spec
INVARIANTS NeverParkedForGood
PROPERTY Ends
CHECK_DEADLOCK FALSE
