SPECIFICATION Spec
CONSTANTS Players = {"p1", "p2", "p3"}
 Fix = FALSE
 MaxGen = 3
INVARIANTS NoCollateral RunningIffMembers
CHECK_DEADLOCK FALSE
