------------------------------- MODULE FanoutTrace -----------------------------
(* Property-level trace validation for C01-C04.  The trace (ndjson, env
   VERIF_TRACE) is a concatenation of executions of the real media.Stream, each
   bracketed by "begin" (the scenario: packet kinds, cache_gop, consumers ...)
   and "end".  Only API-level observations are used: calls and returns of
   WriteRtpPacket / StartConsume / StopConsume / Close, what each recording
   consumer was handed ("deliver", with an intact bit computed from the bytes),
   Consumer.Close invocations ("tclose") and the census after quiescence
   ("final").  Every event is consumed; an event that the property forbids
   prints one @BAD line naming the clause, the execution and the event.        *)
EXTENDS Integers, Sequences, FiniteSets, TLC, Json, IOUtils

Trace == ndJsonDeserialize(IOEnv.VERIF_TRACE)

VARIABLES l,          \* position in Trace
          sc,         \* the "begin" record of the current execution
          started,    \* WriteRtpPacket calls begun
          returned,   \* ... returned without error
          failed,     \* ... returned an error (stream closed)
          lo, hi,     \* per consumer: `returned` at joincall / `started` at joinret (-1: not yet)
          delivered, tclosed,
          dts,        \* per consumer: the timestamps seen with the deliveries (FLV; -1 for RTP)
          stopped,    \* per consumer: a StopConsume with its real id has been called
          stopLate,   \* ... and that call began after its StartConsume had returned
          closing,    \* Stream.Close has been called
          bad         \* number of rejected events so far (only to make states distinct)
vars == <<l, sc, started, returned, failed, lo, hi, delivered, dts, tclosed, stopped, stopLate, closing, bad>>

Strict == INSTANCE FanoutProp WITH Media <- sc.media, Pkts <- sc.pkts, CacheGop <- sc.cachegop, ReplayVideoOnly <- FALSE
Video  == INSTANCE FanoutProp WITH Media <- sc.media, Pkts <- sc.pkts, CacheGop <- sc.cachegop, ReplayVideoOnly <- TRUE

ConsOf(s) == {s.cons[i] : i \in 1..Len(s.cons)}
SetOf(q) == {q[i] : i \in 1..Len(q)}
Blank == [media |-> "h264", pkts |-> <<>>, cachegop |-> FALSE, cons |-> <<>>, panics |-> <<>>, stoppers |-> <<>>, name |-> "", t |-> 0, maxq |-> 1000]

Reject(clause, e, extra) ==
  /\ PrintT(<<"@BAD", ToJson([clause |-> clause, t |-> e.t, line |-> l, ev |-> e.e, info |-> extra])>>)
  /\ bad' = bad + 1

Init == /\ l = 1 /\ sc = Blank /\ started = 0 /\ returned = 0 /\ failed = 0
        /\ lo = <<>> /\ hi = <<>> /\ delivered = <<>> /\ dts = <<>> /\ tclosed = <<>> /\ stopped = <<>> /\ stopLate = <<>> /\ closing = FALSE /\ bad = 0

Begin(e) ==
  /\ sc' = e
  /\ started' = 0 /\ returned' = 0 /\ failed' = 0 /\ closing' = FALSE
  /\ lo' = [c \in ConsOf(e) |-> -1] /\ hi' = [c \in ConsOf(e) |-> -1]
  /\ delivered' = [c \in ConsOf(e) |-> <<>>] /\ dts' = [c \in ConsOf(e) |-> <<>>] /\ tclosed' = [c \in ConsOf(e) |-> 0]
  /\ stopped' = [c \in ConsOf(e) |-> FALSE] /\ stopLate' = [c \in ConsOf(e) |-> FALSE]
  /\ bad' = bad

HiNow(c) == IF hi[c] >= 0 THEN hi[c] ELSE started

(* C01/C02 on one more delivery *)
Deliver(e) ==
  LET c == e.c
      d == Append(delivered[c], e.i)
      ts == Append(dts[c], e.ts)
  IN /\ delivered' = [delivered EXCEPT ![c] = d]
     /\ dts' = [dts EXCEPT ![c] = ts]
     /\ UNCHANGED <<sc, started, returned, failed, lo, hi, tclosed, stopped, stopLate, closing>>
     /\ IF ~e.ok THEN Reject("C01:payload-modified", e, [c |-> c, i |-> e.i])
        ELSE IF lo[c] < 0 THEN Reject("C01:delivery-before-attach", e, [c |-> c, i |-> e.i])
        ELSE IF sc.maxq < 1000
             THEN (IF Video!DeliveredOKDrops(d, lo[c], HiNow(c), started) THEN bad' = bad
                   ELSE Reject("C04:drop-not-aligned-to-key-frames", e, [c |-> c, got |-> d, lo |-> lo[c], hi |-> HiNow(c)]))
        ELSE IF Strict!DeliveredOK(d, lo[c], HiNow(c), started)
             THEN (IF Strict!DeliveredOKT(d, ts, lo[c], HiNow(c), started) THEN bad' = bad
                   ELSE Reject("C01C02:flv-tag-timestamp", e, [c |-> c, got |-> d, ts |-> ts, lo |-> lo[c], hi |-> HiNow(c)]))
        ELSE IF Video!DeliveredOK(d, lo[c], HiNow(c), started)
             THEN Reject("C02:rtp-replay-omits-nonvideo-channel", e, [c |-> c, got |-> d])
        ELSE Reject("C01C02:order-gap-repeat", e, [c |-> c, got |-> d, lo |-> lo[c], hi |-> HiNow(c), published |-> started])

(* the census after quiescence *)
Final(e) ==
  LET cons == ConsOf(sc)
      attached == {c \in cons : hi[c] >= 0}
      parked == SetOf(e.parked)
      gone == SetOf(e.gone)
      regd == SetOf(e.regd)
      panics == SetOf(sc.panics)
      untouched == {c \in attached : ~closing /\ ~stopped[c] /\ c \notin panics /\ failed = 0}
      published == returned
      problems ==
         (IF e.count < 0 THEN {"C03:count-negative"} ELSE {})
         \cup (IF e.count # e.mapped THEN {"C03:count-differs-from-registered"} ELSE {})
         \cup (IF closing /\ e.count # 0 THEN {"C03:count-nonzero-after-close"} ELSE {})
         \cup {"C03:not-released-after-close" : c \in {c \in attached : closing /\ (tclosed[c] = 0 \/ c \notin gone \/ c \in regd)}}
         \cup {"C03:not-released-after-stop" : c \in {c \in attached : stopLate[c] /\ (tclosed[c] = 0 \/ c \notin gone \/ c \in regd)}}
         \cup {"C04:panicking-consumer-not-detached" : c \in {c \in attached \cap panics : delivered[c] # <<>> /\ (tclosed[c] = 0 \/ c \notin gone \/ c \in regd)}}
         \cup {"C03:closed-without-reason" : c \in {c \in untouched : tclosed[c] > 0 \/ c \in gone}}
         \cup {"C01:incomplete-delivery" : c \in {c \in untouched : sc.maxq >= 1000 /\
                    ~ (Strict!DeliveredAll(delivered[c], lo[c], hi[c], published) \/ Video!DeliveredAll(delivered[c], lo[c], hi[c], published))}}
  IN /\ UNCHANGED <<sc, started, returned, failed, lo, hi, delivered, dts, tclosed, stopped, stopLate, closing>>
     /\ IF problems = {} THEN bad' = bad
        ELSE Reject("final", e, [problems |-> problems, count |-> e.count, mapped |-> e.mapped, parked |-> e.parked,
                                 gone |-> e.gone, tclosed |-> tclosed, delivered |-> delivered])

Consume ==
  /\ l <= Len(Trace)
  /\ l' = l + 1
  /\ LET e == Trace[l] IN
     CASE e.e = "begin" -> Begin(e)
       [] e.e = "end" -> UNCHANGED <<sc, started, returned, failed, lo, hi, delivered, dts, tclosed, stopped, stopLate, closing, bad>>
       [] e.e = "pubcall" -> started' = started + 1 /\ UNCHANGED <<sc, returned, failed, lo, hi, delivered, dts, tclosed, stopped, stopLate, closing, bad>>
       [] e.e = "pubret" -> /\ (IF e.err THEN failed' = failed + 1 /\ returned' = returned ELSE returned' = returned + 1 /\ failed' = failed)
                            /\ UNCHANGED <<sc, started, lo, hi, delivered, dts, tclosed, stopped, stopLate, closing, bad>>
       [] e.e = "joincall" -> lo' = [lo EXCEPT ![e.c] = returned] /\ UNCHANGED <<sc, started, returned, failed, hi, delivered, dts, tclosed, stopped, stopLate, closing, bad>>
       [] e.e = "joinret" -> hi' = [hi EXCEPT ![e.c] = started] /\ UNCHANGED <<sc, started, returned, failed, lo, delivered, dts, tclosed, stopped, stopLate, closing, bad>>
       [] e.e = "stopcall" -> /\ stopped' = [stopped EXCEPT ![e.c] = @ \/ e.known]
                              /\ stopLate' = [stopLate EXCEPT ![e.c] = @ \/ (e.known /\ hi[e.c] >= 0)]
                              /\ UNCHANGED <<sc, started, returned, failed, lo, hi, delivered, dts, tclosed, closing, bad>>
       [] e.e = "stopret" -> UNCHANGED <<sc, started, returned, failed, lo, hi, delivered, dts, tclosed, stopped, stopLate, closing, bad>>
       [] e.e = "closecall" -> closing' = TRUE /\ UNCHANGED <<sc, started, returned, failed, lo, hi, delivered, dts, tclosed, stopped, stopLate, bad>>
       [] e.e = "replacecall" -> UNCHANGED <<sc, started, returned, failed, lo, hi, delivered, dts, tclosed, stopped, stopLate, closing, bad>>
       [] e.e = "replaceret" -> closing' = (closing \/ e.closed) /\ UNCHANGED <<sc, started, returned, failed, lo, hi, delivered, dts, tclosed, stopped, stopLate, bad>>
       [] e.e = "crash" -> /\ UNCHANGED <<sc, started, returned, failed, lo, hi, delivered, dts, tclosed, stopped, stopLate, closing>>
                           /\ Reject(IF e.g = "pub" THEN "C04:publisher-crashed" ELSE "C03:api-call-panicked", e, [proc |-> e.g, what |-> e.what])
       [] e.e = "closeret" -> UNCHANGED <<sc, started, returned, failed, lo, hi, delivered, dts, tclosed, stopped, stopLate, closing, bad>>
       [] e.e = "tclose" -> tclosed' = [tclosed EXCEPT ![e.c] = @ + 1] /\ UNCHANGED <<sc, started, returned, failed, lo, hi, delivered, dts, stopped, stopLate, closing, bad>>
       [] e.e = "qlen" -> /\ UNCHANGED <<sc, started, returned, failed, lo, hi, delivered, dts, tclosed, stopped, stopLate, closing>>
                          /\ IF Video!BacklogOK(e.n, sc.maxq, 2 + Video!G, started) THEN bad' = bad
                             ELSE Reject("C04:backlog-exceeds-limit-plus-gop-plus-replay", e, [c |-> e.c, n |-> e.n])
       [] e.e = "deliver" -> Deliver(e)
       [] e.e = "final" -> Final(e)

Next == Consume
AllConsumed == TLCGet("stats").diameter = Len(Trace) + 1
================================================================================
