--------------------------------- MODULE Fanout --------------------------------
(* Implementation-level specification of the stream fan-out of cnotch/ipchub
   (media/stream.go, consumption.go, consumptions.go, cache/h264cache.go and the
   third-party queue.SyncQueue), for ONE stream.

   Grain of atomicity: every process is always either parked at a verification
   hook point (vhook.At in /repo, build tag verif), blocked inside the code
   (cond.Wait = "waiting", mutex = "lockwait"), or finished.  One action =
   "release process P from the hook it is parked at; it runs the code up to
   its next hook".  pc[P] is the name of that hook, so a behaviour of this
   module projected on process names is a schedule the gate scheduler of the
   harness replays literally on the real code.

   Processes:  "pub"       the publisher goroutine (Stream.WriteRtpPacket per packet)
               "join:c"    the goroutine calling Stream.StartConsume for consumer c
               "cg:c"      consumption.consume(), started by join:c
               "stop:c"    a goroutine calling Stream.StopConsume(cid of c)
               "closer"    a goroutine calling Stream.Close()

   The four Fix* constants are named deviations: FALSE = the code as found at the
   pinned commit, TRUE = the code after the corresponding "fix:" commit.       *)
EXTENDS Integers, Sequences, FiniteSets, TLC

CONSTANTS Cons,        \* set of consumer names (strings)
          Media,       \* "h264" | "h265" (RTP packets, media/cache/h264cache.go, hevccache.go) | "flv" (FLV tags, flvcache.go)
          Pkts,        \* sequence of packet kinds: header kinds (see HdrOrder), "key", "non", "aud"
          CacheGop,    \* cache_gop configuration
          MaxQ,        \* backlog limit (1000 in the code)
          Stoppers,    \* consumers for which a stop:c process exists
          WithCloser,  \* whether the closer process exists
          Replace,     \* the closer is media.Regist of a successor: closes this stream only if it has no consumer then
          Panics,      \* consumers whose Consume panics on its first packet
          ClosePanics, \* ... and whose Close panics as well (the exit path is cut short after consumer.Close())
          FixWake,     \* Close wakes the consumer through the queue lock (Push(nil)) instead of a bare Signal
          FixAttach,   \* startConsume re-checks the stream status after registering
          FixCount,    \* Add / Remove / RemoveAndCloseAll are serialised; count moves with the map
          FixJoin      \* one lock spans cache-update+broadcast and snapshot+register

NIL == 0
NP == Len(Pkts)
J(c) == "join:" \o c
G(c) == "cg:" \o c
S(c) == "stop:" \o c
Procs == {"pub"} \cup {J(c) : c \in Cons} \cup {G(c) : c \in Cons}
         \cup {S(c) : c \in Stoppers} \cup (IF WithCloser THEN {"closer"} ELSE {})

VARIABLES
  pc,         \* Procs -> hook name | "waiting" | "lockwait" | "idle" | "done"
  status,     \* "ok" | "closed"
  cache,      \* [sps, pps : 0..NP, gop : Seq(1..NP)]
  map,        \* registered consumers (consumptions as a set)
  count,      \* consumptions.count
  q,          \* per consumer: recvQueue (sequence of packet indexes, NIL allowed)
  closedF,    \* per consumer: consumption.closed
  disc,       \* per consumer: consumption.discarding
  gitem,      \* per consumer: what the last Pop returned (NIL = nil)
  lk,         \* holder of the join lock ("free" when none; only used when FixJoin)
  pi,         \* index of the packet the publisher is working on
  prange,     \* consumers the current Range of SendToAll still has to visit (sequence)
  crange,     \* consumers the closer's Range still has to visit
  cur,        \* per process: the consumer a multi-step Close/Remove is working on ("" if none)
  \* ---- observation / history variables (never read by the actions above) ----
  delivered,  \* per consumer: packets handed to Consumer.Consume, in order
  tclosed,    \* per consumer: number of Consumer.Close invocations
  cached,     \* number of packets the cache has absorbed (CachePack done)
  sentAll,    \* number of packets completely broadcast
  lo, hi,     \* per consumer: sentAll when StartConsume began / cached when it returned (-1 = not yet)
  stopLate,   \* per stopper: TRUE iff StopConsume began after StartConsume had returned
  withheld,   \* per consumer: packets not enqueued because of the backlog rule
  hist        \* schedule so far (sequence of process names)

obs == <<delivered, tclosed, cached, sentAll, lo, hi, stopLate, withheld, hist>>
vars == <<pc, status, cache, map, count, q, closedF, disc, gitem, lk, pi, prange, crange, cur, obs>>

Kind(i) == Pkts[i]
KeyFlag(i) == Kind(i) = "key"            \* return value of CachePack

(* ---- caches (media/cache/h264cache.go, hevccache.go, flvcache.go) ----------- *)
(* header packets: parameter sets (RTP) / metadata and sequence headers (FLV); the caches keep the
   latest of each kind and replay them in this order                                             *)
HdrOrder == CASE Media = "h264" -> <<"sps", "pps">>
              [] Media = "h265" -> <<"vps", "sps", "pps">>
              [] OTHER -> <<"meta", "vsh", "ash">>
HdrKinds == {HdrOrder[i] : i \in 1..Len(HdrOrder)}
(* the RTP caches look at video-channel packets only; the FLV cache keeps audio tags in the GOP *)
CachePack(c, i) ==
  CASE Kind(i) \in HdrKinds -> [c EXCEPT !.hdr[Kind(i)] = i]
    [] Kind(i) = "aud" /\ Media # "flv" -> c
    [] Kind(i) = "key" -> IF CacheGop THEN [c EXCEPT !.gop = <<i>>] ELSE c
    [] OTHER -> IF CacheGop /\ c.gop # <<>> THEN [c EXCEPT !.gop = Append(@, i)] ELSE c
EmptyCache == [hdr |-> [k \in HdrKinds |-> 0], gop |-> <<>>]
RECURSIVE HdrSnap(_, _)
HdrSnap(c, n) == IF n > Len(HdrOrder) THEN <<>>
                 ELSE (IF c.hdr[HdrOrder[n]] # 0 THEN <<c.hdr[HdrOrder[n]]>> ELSE <<>>) \o HdrSnap(c, n + 1)
Snapshot(c) == HdrSnap(c, 1) \o (IF CacheGop THEN c.gop ELSE <<>>)

(* ---- queue.SyncQueue ------------------------------------------------------ *)
(* Push: lock, append, Signal.  A consumer goroutine blocked in cond.Wait wakes,
   pops the head and reaches the hook loop.popped within the same step.        *)
PushTo(c, p) ==
  IF pc[G(c)] = "waiting"
  THEN /\ q' = [q EXCEPT ![c] = <<>>]
       /\ gitem' = [gitem EXCEPT ![c] = p]
  ELSE /\ q' = [q EXCEPT ![c] = Append(@, p)]
       /\ gitem' = gitem
Woken(c) == pc[G(c)] = "waiting"          \* evaluated in the unprimed state
(* bare cond.Signal() without the lock: wakes a waiter (which then pops nil),
   is lost otherwise                                                           *)
SignalOnly(c) ==
  /\ q' = q
  /\ gitem' = IF pc[G(c)] = "waiting" THEN [gitem EXCEPT ![c] = NIL] ELSE gitem
CloseWake(c) == IF FixWake THEN PushTo(c, NIL) ELSE SignalOnly(c)

(* consumption.send *)
DiscNext(c, key) ==
  LET n == Len(q[c]) IN
  IF key THEN (IF disc[c] /\ n < MaxQ THEN FALSE ELSE IF ~disc[c] /\ n > MaxQ THEN TRUE ELSE disc[c])
  ELSE disc[c]

(* ---- the join lock (FixJoin) ---------------------------------------------- *)
FirstLocked(p) == IF p = "pub" THEN "pub.begin" ELSE "join.begin"
(* p arrives at Lock(): gets it or blocks *)
LockOr(p, pcs) ==
  IF ~FixJoin THEN /\ pc' = [pcs EXCEPT ![p] = FirstLocked(p)] /\ lk' = lk
  ELSE IF lk = "free" THEN /\ pc' = [pcs EXCEPT ![p] = FirstLocked(p)] /\ lk' = p
  ELSE /\ pc' = [pcs EXCEPT ![p] = "lockwait"] /\ lk' = lk
(* holder unlocks: hand over to one waiter, which runs to its first hook inside the lock *)
UnlockWith(pcs) ==
  IF ~FixJoin THEN pc' = pcs /\ lk' = lk
  ELSE LET ws == {w \in Procs : pcs[w] = "lockwait"} IN
       IF ws = {} THEN pc' = pcs /\ lk' = "free"
       ELSE \E w \in ws : pc' = [pcs EXCEPT ![w] = FirstLocked(w)] /\ lk' = w

Step(p) == hist' = Append(hist, p)

(* ---- publisher ------------------------------------------------------------- *)
(* WriteRtpPacket: status check, then (lock and) the hook pub.begin             *)
PubStart ==
  /\ pc["pub"] = "start"
  /\ IF pi > NP \/ status # "ok"
     THEN pc' = [pc EXCEPT !["pub"] = "done"] /\ lk' = lk
     ELSE LockOr("pub", pc)
  /\ Step("pub")
  /\ UNCHANGED <<status, cache, map, count, q, closedF, disc, gitem, pi, prange, crange, cur,
                 delivered, tclosed, cached, sentAll, lo, hi, stopLate, withheld>>
(* pub.begin -> CachePack -> pub.cached *)
PubCache ==
  /\ pc["pub"] = "pub.begin"
  /\ cache' = CachePack(cache, pi)
  /\ cached' = cached + 1
  /\ pc' = [pc EXCEPT !["pub"] = "pub.cached"]
  /\ Step("pub")
  /\ UNCHANGED <<status, map, count, q, closedF, disc, gitem, lk, pi, prange, crange, cur,
                 delivered, tclosed, sentAll, lo, hi, stopLate, withheld>>
(* sync.Map.Range: iterates the entries present when it starts; an entry deleted
   meanwhile is skipped.  Visiting order is arbitrary.                          *)
Orders(set) == {s \in [1..Cardinality(set) -> set] : \A i, j \in 1..Cardinality(set) : i # j => s[i] # s[j]}
RECURSIVE SkipGone(_, _)
SkipGone(r, m) == IF r = <<>> THEN r ELSE IF Head(r) \in m THEN r ELSE SkipGone(Tail(r), m)
PubRange ==
  /\ pc["pub"] = "pub.cached"
  /\ \E order \in Orders(map) :
       /\ prange' = order
       /\ pc' = [pc EXCEPT !["pub"] = IF order = <<>> THEN "pub.sent" ELSE "send.one"]
       /\ sentAll' = IF order = <<>> THEN sentAll + 1 ELSE sentAll
  /\ Step("pub")
  /\ UNCHANGED <<status, cache, map, count, q, closedF, disc, gitem, lk, pi, crange, cur,
                 delivered, tclosed, cached, lo, hi, stopLate, withheld>>
(* send.one(c) -> c.send(packet) -> next visit or pub.sent *)
PubSend ==
  /\ pc["pub"] = "send.one"
  /\ LET c == Head(prange)
         d == DiscNext(c, KeyFlag(pi))
         rest == SkipGone(Tail(prange), map)
     IN /\ disc' = [disc EXCEPT ![c] = d]
        /\ IF d THEN /\ UNCHANGED <<q, gitem>>
                     /\ withheld' = [withheld EXCEPT ![c] = Append(@, pi)]
                     /\ pc' = [pc EXCEPT !["pub"] = IF rest = <<>> THEN "pub.sent" ELSE "send.one"]
           ELSE /\ PushTo(c, pi)
                /\ withheld' = withheld
                /\ pc' = [pc EXCEPT !["pub"] = IF rest = <<>> THEN "pub.sent" ELSE "send.one",
                                    ![G(c)] = IF Woken(c) THEN "loop.popped" ELSE @]
        /\ prange' = rest
        /\ sentAll' = IF rest = <<>> THEN sentAll + 1 ELSE sentAll
  /\ Step("pub")
  /\ UNCHANGED <<status, cache, map, count, closedF, lk, pi, crange, cur,
                 delivered, tclosed, cached, lo, hi, stopLate>>
(* pub.sent -> (unlock) -> demuxer write, return; the next WriteRtpPacket call: status check,
   (lock), pub.begin.  sync.Mutex does not hand over: after Unlock either a waiter or the
   publisher itself (barging) gets the lock next.                                            *)
PubSent ==
  /\ pc["pub"] = "pub.sent"
  /\ pi' = pi + 1
  /\ IF pi + 1 > NP \/ status # "ok"
     THEN UnlockWith([pc EXCEPT !["pub"] = "done"])
     ELSE IF ~FixJoin THEN pc' = [pc EXCEPT !["pub"] = "pub.begin"] /\ lk' = lk
     ELSE \/ pc' = [pc EXCEPT !["pub"] = "pub.begin"] /\ lk' = "pub"
          \/ \E w \in {w \in Procs : pc[w] = "lockwait"} :
                pc' = [pc EXCEPT ![w] = FirstLocked(w), !["pub"] = "lockwait"] /\ lk' = w
  /\ Step("pub")
  /\ UNCHANGED <<status, cache, map, count, q, closedF, disc, gitem, prange, crange, cur,
                 delivered, tclosed, cached, sentAll, lo, hi, stopLate, withheld>>

(* ---- joiner: Stream.startConsume ------------------------------------------- *)
JoinStart(c) ==
  /\ pc[J(c)] = "start"
  /\ lo' = [lo EXCEPT ![c] = sentAll]
  /\ LockOr(J(c), pc)
  /\ Step(J(c))
  /\ UNCHANGED <<status, cache, map, count, q, closedF, disc, gitem, pi, prange, crange, cur,
                 delivered, tclosed, cached, sentAll, hi, stopLate, withheld>>
(* join.begin -> sendGop (copies the cache into the still private queue) -> join.snap *)
JoinSnap(c) ==
  /\ pc[J(c)] = "join.begin"
  /\ q' = [q EXCEPT ![c] = Snapshot(cache)]
  /\ pc' = [pc EXCEPT ![J(c)] = "join.snap"]
  /\ Step(J(c))
  /\ UNCHANGED <<status, cache, map, count, closedF, disc, gitem, lk, pi, prange, crange, cur, delivered,
                 tclosed, cached, sentAll, lo, hi, stopLate, withheld>>
(* join.snap -> consumptions.Add -> join.added *)
JoinAdd(c) ==
  /\ pc[J(c)] = "join.snap"
  /\ map' = map \cup {c}
  /\ count' = count + 1
  /\ pc' = [pc EXCEPT ![J(c)] = "join.added"]
  /\ Step(J(c))
  /\ UNCHANGED <<status, cache, q, closedF, disc, gitem, lk, pi, prange, crange, cur, delivered,
                 tclosed, cached, sentAll, lo, hi, stopLate, withheld>>
(* what the caller of StopConsume does once Remove+Close have returned *)
SpawnPc(cf) == IF cf THEN "exit.begin" ELSE "loop.checked"
Finish(p, kind, c, pcs, cf) ==
  CASE kind = "stop" -> /\ pc' = [pcs EXCEPT ![p] = "done"] /\ tclosed' = tclosed
    [] kind = "exit" -> /\ pc' = [pcs EXCEPT ![p] = IF ClosePanics /\ c \in Panics THEN "done" ELSE "exit.done"]
                        /\ tclosed' = [tclosed EXCEPT ![c] = @ + 1]          \* consumer.Close()
    [] kind = "join" -> /\ pc' = [pcs EXCEPT ![p] = "done", ![G(c)] = SpawnPc(cf)]   \* go c.consume()
                        /\ tclosed' = tclosed

(* join.added -> (unlock) -> [FixAttach: status re-check -> StopConsume] -> go consume(); return *)
JoinSpawn(c) ==
  /\ pc[J(c)] = "join.added"
  /\ hi' = [hi EXCEPT ![c] = cached]
  /\ IF FixAttach /\ status # "ok"
     THEN \* StopConsume(cid): Remove ...
          IF c \in map
          THEN /\ UnlockWith([pc EXCEPT ![J(c)] = "remove.loaded"])
               /\ cur' = [cur EXCEPT ![J(c)] = c]
               /\ map' = IF FixCount THEN map \ {c} ELSE map
          ELSE /\ UnlockWith([pc EXCEPT ![J(c)] = "done", ![G(c)] = SpawnPc(closedF[c])])
               /\ UNCHANGED <<cur, map>>
     ELSE /\ UnlockWith([pc EXCEPT ![J(c)] = "done", ![G(c)] = SpawnPc(closedF[c])])
          /\ UNCHANGED <<cur, map>>
  /\ Step(J(c))
  /\ UNCHANGED <<status, cache, count, q, closedF, disc, gitem, pi, prange, crange, delivered,
                 tclosed, cached, sentAll, lo, stopLate, withheld>>

(* ---- consumer goroutine: consumption.consume -------------------------------- *)
(* loop.checked -> Pop: head of the queue, or block in cond.Wait                 *)
ConsPop(c) ==
  /\ pc[G(c)] = "loop.checked"
  /\ IF q[c] # <<>>
     THEN /\ gitem' = [gitem EXCEPT ![c] = Head(q[c])]
          /\ q' = [q EXCEPT ![c] = Tail(@)]
          /\ pc' = [pc EXCEPT ![G(c)] = "loop.popped"]
     ELSE /\ pc' = [pc EXCEPT ![G(c)] = "waiting"]
          /\ UNCHANGED <<q, gitem>>
  /\ Step(G(c))
  /\ UNCHANGED <<status, cache, map, count, closedF, disc, lk, pi, prange, crange, cur, delivered,
                 tclosed, cached, sentAll, lo, hi, stopLate, withheld>>
(* loop.popped -> Consume (unless nil) -> re-check closed -> loop.checked | exit.begin *)
ConsConsume(c) ==
  /\ pc[G(c)] = "loop.popped"
  /\ LET p == gitem[c]
         boom == p # NIL /\ c \in Panics /\ delivered[c] = <<>>
     IN /\ delivered' = IF p # NIL THEN [delivered EXCEPT ![c] = Append(@, p)] ELSE delivered
        /\ pc' = [pc EXCEPT ![G(c)] = IF boom \/ closedF[c] THEN "exit.begin" ELSE "loop.checked"]
  /\ Step(G(c))
  /\ UNCHANGED <<status, cache, map, count, q, closedF, disc, gitem, lk, pi, prange, crange, cur,
                 tclosed, cached, sentAll, lo, hi, stopLate, withheld>>

(* ---- consumptions.Remove + consumption.Close, shared by stop:c, the exit path of cg:c and
        (FixAttach) the late joiner ------------------------------------------------------ *)
(* Remove: Load; (hook remove.loaded); Delete; count--.   With FixCount it is LoadAndDelete;
   (hook remove.loaded); count--, so the entry is already gone at the hook.                  *)
RemoveLoad(p, c, notfound) ==
  IF c \in map
  THEN /\ pc' = [pc EXCEPT ![p] = "remove.loaded"]
       /\ cur' = [cur EXCEPT ![p] = c]
       /\ map' = IF FixCount THEN map \ {c} ELSE map
       /\ UNCHANGED <<count, closedF, q, gitem, tclosed>>
  ELSE \* not registered: StopConsume does nothing more
       /\ notfound
       /\ cur' = cur /\ map' = map

(* remove.loaded -> Delete, count-- -> Close: closed? return : closed = true -> close.flag *)
RemoveDelete(p, kind) ==
  /\ pc[p] = "remove.loaded"
  /\ LET c == cur[p] IN
     /\ map' = map \ {c}
     /\ count' = count - 1
     /\ IF closedF[c]
        THEN /\ closedF' = closedF
             /\ Finish(p, kind, c, pc, TRUE)
        ELSE /\ closedF' = [closedF EXCEPT ![c] = TRUE]
             /\ tclosed' = tclosed
             /\ pc' = [pc EXCEPT ![p] = "close.flag"]
  /\ Step(p)
  /\ UNCHANGED <<status, cache, q, disc, gitem, lk, pi, prange, crange, cur, delivered,
                 cached, sentAll, lo, hi, stopLate, withheld>>

(* close.flag -> wake the consumer goroutine -> caller continues *)
CloseFlag(p, kind) ==      \* kind: "stop" | "exit" | "join"
  /\ pc[p] = "close.flag"
  /\ LET c == cur[p] IN
     /\ CloseWake(c)
     /\ Finish(p, kind, c, [pc EXCEPT ![G(c)] = IF Woken(c) /\ G(c) # p THEN "loop.popped" ELSE @], TRUE)
  /\ Step(p)
  /\ UNCHANGED <<status, cache, map, count, closedF, disc, lk, pi, prange, crange, cur, delivered,
                 cached, sentAll, lo, hi, stopLate, withheld>>

(* exit.begin -> stream.StopConsume(cid) ... -> consumer.Close() -> exit.done *)
ConsExit(c) ==
  /\ pc[G(c)] = "exit.begin"
  /\ RemoveLoad(G(c), c,
        /\ pc' = [pc EXCEPT ![G(c)] = IF ClosePanics /\ c \in Panics THEN "done" ELSE "exit.done"]
        /\ tclosed' = [tclosed EXCEPT ![c] = @ + 1]
        /\ UNCHANGED <<count, closedF, q, gitem>>)
  /\ Step(G(c))
  /\ UNCHANGED <<status, cache, disc, lk, pi, prange, crange, delivered,
                 cached, sentAll, lo, hi, stopLate, withheld>>
ConsDone(c) ==
  /\ pc[G(c)] = "exit.done"
  /\ q' = [q EXCEPT ![c] = <<>>]                  \* recvQueue.Reset()
  /\ pc' = [pc EXCEPT ![G(c)] = "done"]
  /\ Step(G(c))
  /\ UNCHANGED <<status, cache, map, count, closedF, disc, gitem, lk, pi, prange, crange, cur, delivered,
                 tclosed, cached, sentAll, lo, hi, stopLate, withheld>>

(* ---- stop:c : Stream.StopConsume(cid) from another goroutine ----------------- *)
(* the id passed to StopConsume is the one StartConsume returned, so a stop cannot begin earlier *)
StopStart(c) ==
  /\ pc[S(c)] = "start" /\ pc[J(c)] = "done"
  /\ stopLate' = [stopLate EXCEPT ![c] = (pc[J(c)] = "done")]
  /\ RemoveLoad(S(c), c,
        /\ pc' = [pc EXCEPT ![S(c)] = "done"]
        /\ UNCHANGED <<count, closedF, q, gitem, tclosed>>)
  /\ Step(S(c))
  /\ UNCHANGED <<status, cache, disc, lk, pi, prange, crange, delivered,
                 cached, sentAll, lo, hi, withheld>>

(* ---- closer: Stream.close -> RemoveAndCloseAll ------------------------------- *)
CloseStart ==
  /\ pc["closer"] = "start"
  /\ IF status # "ok" \/ (Replace /\ count > 0)
     THEN pc' = [pc EXCEPT !["closer"] = "done"] /\ status' = status
     ELSE status' = "closed" /\ pc' = [pc EXCEPT !["closer"] = "close.marked"]
  /\ Step("closer")
  /\ UNCHANGED <<cache, map, count, q, closedF, disc, gitem, lk, pi, prange, crange, cur, delivered,
                 tclosed, cached, sentAll, lo, hi, stopLate, withheld>>
(* close.marked -> (ts muxer, flv consumers: none here) -> sweep.zero of the flv set *)
CloseFlvSweep ==
  /\ pc["closer"] = "close.marked" /\ Media # "flv"
  /\ pc' = [pc EXCEPT !["closer"] = "sweep.zero.flv"]
  /\ Step("closer")
  /\ UNCHANGED <<status, cache, map, count, q, closedF, disc, gitem, lk, pi, prange, crange, cur, delivered,
                 tclosed, cached, sentAll, lo, hi, stopLate, withheld>>
(* -> flv count = 0, flv cache reset, muxer/demuxer Close -> RemoveAndCloseAll: Range starts.
   Range visits the entries present at its start, skipping the ones deleted meanwhile;
   each visit deletes the entry (FixCount: LoadAndDelete + count--) and reaches sweep.one.   *)
SweepNext(pcs, rest) ==
  LET r == SkipGone(rest, map) IN
  IF r = <<>> THEN /\ pc' = [pcs EXCEPT !["closer"] = "sweep.zero"]
                   /\ crange' = <<>> /\ cur' = cur /\ map' = map /\ count' = count
  ELSE /\ map' = map \ {Head(r)}
       /\ count' = IF FixCount THEN count - 1 ELSE count
       /\ crange' = Tail(r)
       /\ cur' = [cur EXCEPT !["closer"] = Head(r)]
       /\ pc' = [pcs EXCEPT !["closer"] = "sweep.one"]
CloseRange ==
  /\ pc["closer"] = (IF Media = "flv" THEN "close.marked" ELSE "sweep.zero.flv")   \* the FLV set is swept first
  /\ \E order \in Orders(map) : SweepNext(pc, order)
  /\ Step("closer")
  /\ UNCHANGED <<status, cache, q, closedF, disc, gitem, lk, pi, prange, delivered,
                 tclosed, cached, sentAll, lo, hi, stopLate, withheld>>
(* sweep.one(c) -> c.Close(): closed? next visit : closed = true -> close.flag *)
SweepClose ==
  /\ pc["closer"] = "sweep.one"
  /\ LET c == cur["closer"] IN
     IF closedF[c] THEN /\ SweepNext(pc, crange) /\ closedF' = closedF
     ELSE /\ closedF' = [closedF EXCEPT ![c] = TRUE]
          /\ pc' = [pc EXCEPT !["closer"] = "close.flag"]
          /\ UNCHANGED <<map, count, crange, cur>>
  /\ Step("closer")
  /\ UNCHANGED <<status, cache, q, disc, gitem, lk, pi, prange, delivered,
                 tclosed, cached, sentAll, lo, hi, stopLate, withheld>>
(* close.flag (closer) -> wake -> next visit *)
SweepFlag ==
  /\ pc["closer"] = "close.flag"
  /\ LET c == cur["closer"] IN
     /\ CloseWake(c)
     /\ SweepNext([pc EXCEPT ![G(c)] = IF Woken(c) THEN "loop.popped" ELSE @], crange)
  /\ Step("closer")
  /\ UNCHANGED <<status, cache, closedF, disc, lk, pi, prange, delivered,
                 tclosed, cached, sentAll, lo, hi, stopLate, withheld>>
(* sweep.zero -> count = 0 (code as found), cache.Reset -> return *)
SweepZero ==
  /\ pc["closer"] = "sweep.zero"
  /\ count' = IF FixCount THEN count ELSE 0
  /\ cache' = EmptyCache
  /\ pc' = [pc EXCEPT !["closer"] = IF Media = "flv" THEN "sweep.zero.rtp" ELSE "done"]
  /\ Step("closer")
  /\ UNCHANGED <<status, map, q, closedF, disc, gitem, lk, pi, prange, crange, cur, delivered,
                 tclosed, cached, sentAll, lo, hi, stopLate, withheld>>
(* FLV mode: after the FLV set, Stream.close sweeps the (empty) RTP set *)
SweepRtp ==
  /\ pc["closer"] = "sweep.zero.rtp"
  /\ pc' = [pc EXCEPT !["closer"] = "done"]
  /\ Step("closer")
  /\ UNCHANGED <<status, cache, map, count, q, closedF, disc, gitem, lk, pi, prange, crange, cur, delivered,
                 tclosed, cached, sentAll, lo, hi, stopLate, withheld>>

Init ==
  /\ pc = [p \in Procs |-> IF p \in {G(c) : c \in Cons} THEN "idle" ELSE "start"]
  /\ status = "ok" /\ cache = EmptyCache /\ map = {} /\ count = 0
  /\ q = [c \in Cons |-> <<>>] /\ closedF = [c \in Cons |-> FALSE] /\ disc = [c \in Cons |-> FALSE]
  /\ gitem = [c \in Cons |-> NIL] /\ lk = "free" /\ pi = 1 /\ prange = <<>> /\ crange = <<>>
  /\ cur = [p \in Procs |-> ""]
  /\ delivered = [c \in Cons |-> <<>>] /\ tclosed = [c \in Cons |-> 0]
  /\ cached = 0 /\ sentAll = 0
  /\ lo = [c \in Cons |-> -1] /\ hi = [c \in Cons |-> -1]
  /\ stopLate = [c \in Cons |-> FALSE]
  /\ withheld = [c \in Cons |-> <<>>]
  /\ hist = <<>>

Next ==
  \/ PubStart \/ PubCache \/ PubRange \/ PubSend \/ PubSent
  \/ \E c \in Cons : JoinStart(c) \/ JoinSnap(c) \/ JoinAdd(c) \/ JoinSpawn(c)
                      \/ RemoveDelete(J(c), "join") \/ CloseFlag(J(c), "join")
                      \/ ConsPop(c) \/ ConsConsume(c) \/ ConsExit(c) \/ ConsDone(c)
                      \/ RemoveDelete(G(c), "exit") \/ CloseFlag(G(c), "exit")
  \/ \E c \in Stoppers : StopStart(c) \/ RemoveDelete(S(c), "stop") \/ CloseFlag(S(c), "stop")
  \/ (WithCloser /\ (CloseStart \/ CloseFlvSweep \/ CloseRange \/ SweepClose \/ SweepFlag \/ SweepZero \/ SweepRtp))

Spec == Init /\ [][Next]_vars

(* a state in which no process can move: everybody finished, or is blocked for good *)
Quiescent == \A p \in Procs : pc[p] \in {"done", "idle", "waiting", "lockwait"}
================================================================================
