------------------------------ MODULE TransportTrace ------------------------------
(* C01 over the real transports (trace validation; env VERIF_TRACE).  Records written by harness/transport:
     [e |-> "begin", t]
     [e |-> "pub", t, n, ch (0 video, 1 video control, 2 audio, 3 audio control), rtphash, mediahash, key]   packet n was published
     [e |-> "client", t, c (name; "-late" = attached in mid stream), proto ("rtp" / "rtp-udp": whole packets are compared, "flv": the media
            payload inside the tag), left_at (last packet published while the client was attached), items: <<[n, kind, hash]>>,
            bad (WebSocket messages that were neither one complete frame nor one complete response)]
   The statement: packets published after the client attached arrive in the published order, byte-identical, each at
   most once, and - nothing being dropped for backlog here - all of them; other clients attaching or leaving
   (one leaves after left_at) make no difference. *)
EXTENDS Integers, Sequences, FiniteSets, TLC, Json, IOUtils
Trace == ndJsonDeserialize(IOEnv.VERIF_TRACE)
VARIABLES l, pubs
Init == l = 0 /\ pubs = <<>>
Bad(e, why) == PrintT(<<"@BAD", ToJson([line |-> l', t |-> e.t, why |-> why, c |-> e.c, proto |-> e.proto, left_at |-> e.left_at, nitems |-> Len(e.items)])>>)
Ok(cond, e, why) == IF cond THEN TRUE ELSE Bad(e, why)
Rtp(proto) == proto \in {"rtp", "rtp-udp", "rtp-video"}
\* "rtp-video": a player that set up the video track only is owed the video channel and its control channel
Relevant(proto, p) == IF proto = "rtp-video" THEN p.ch \in {0, 1} ELSE Rtp(proto) \/ p.ch \in {0, 2}
KindOf(proto, p) == IF Rtp(proto) THEN CASE p.ch = 0 -> "ch0" [] p.ch = 1 -> "ch1" [] p.ch = 2 -> "ch2" [] OTHER -> "ch3"
                    ELSE IF p.ch = 0 THEN "video" ELSE "audio"
HashOf(proto, p) == IF Rtp(proto) THEN p.rtphash ELSE p.mediahash
Late(e) == Len(e.c) > 5 /\ SubSeq(e.c, Len(e.c) - 4, Len(e.c)) = "-late"
Leaver(e) == e.c \in {"tcp", "wsp-drop"}      \* the clients that leave in mid stream (one politely, one cut off): only what they did receive is judged
Next ==
  /\ l < Len(Trace) /\ l' = l + 1
  /\ LET e == Trace[l'] IN
     CASE e.e = "begin" -> pubs' = <<>>
       [] e.e = "pub" -> pubs' = Append(pubs, e)
       [] e.e = "client" ->
            LET it == e.items
                ns == {it[i].n : i \in 1..Len(it)}
                first == IF it = <<>> THEN 0 ELSE CHOOSE x \in ns : \A y \in ns : x <= y IN
            /\ pubs' = pubs
            /\ Ok(it # <<>>, e, "C01:transport-client-received-nothing")
            \* C13: on the WebSocket transports every message is exactly one complete response or interleaved frame
            /\ Ok(e.bad = 0, e, "C13:websocket-message-is-not-one-complete-frame-or-response")
            /\ Ok(\A i \in 1..Len(it) : it[i].n \in 1..Len(pubs) => Relevant(e.proto, pubs[it[i].n]), e, "C01:transport-packet-of-a-channel-that-was-not-set-up")
            /\ Ok(\A i \in 1..Len(it) : it[i].n \in 1..Len(pubs), e, "C01:transport-client-received-something-never-published")
            \* one connection: one order; UDP: four sockets read independently, so the order is per socket
            /\ Ok(\A i, j \in 1..Len(it) : (i < j /\ (e.proto # "rtp-udp" \/ it[i].kind = it[j].kind)) => it[i].n < it[j].n, e, "C01:transport-order-or-duplicate")
            /\ Ok(\A i \in 1..Len(it) : (it[i].n \in 1..Len(pubs) /\ it[i].n <= e.left_at) =>
                     (it[i].hash = HashOf(e.proto, pubs[it[i].n]) /\ it[i].kind = KindOf(e.proto, pubs[it[i].n])), e, "C01:transport-payload-or-channel-differs")
            \* nothing missing between the first packet received and the last one published while attached
            /\ Ok(Leaver(e) \/ it = <<>> \/ \A n \in first..e.left_at : Relevant(e.proto, pubs[n]) => n \in ns, e, "C01:transport-packet-missing")
            \* a client attached before the first packet starts with the first relevant one
            /\ Ok(Late(e) \/ it = <<>> \/ \A n \in 1..first - 1 : ~Relevant(e.proto, pubs[n]), e, "C01:transport-early-client-misses-the-beginning")
AllConsumed == TLCGet("stats").diameter = Len(Trace) + 1
(* multicast players (driver TestMulticast; they share one proxy consumer; datagrams cannot be received in the sandbox):
     [e |-> "mcast-end", t, players_ok, consumers_while_playing, closed: <<BOOLEAN>>]    the publisher left: was each player's connection closed?
     [e |-> "mcast-leave", t, players_ok, consumers_after_first_left, second_still_connected, consumers_after_all_left]   the first of two players left, then the second
     [e |-> "mcast-swap", t, tries, handshakes, gated, joiner_dropped]   one player left at the moment another joined (McastProxy.tla), repeated *)
McastNext ==
  /\ l < Len(Trace) /\ l' = l + 1 /\ pubs' = pubs
  /\ LET e == Trace[l'] IN
     CASE e.e = "mcast-end" ->
            IF e.players_ok /\ \A i \in 1..Len(e.closed) : e.closed[i] THEN TRUE
            ELSE PrintT(<<"@BAD", ToJson([line |-> l', t |-> e.t, why |-> "C03:multicast-player-not-closed-when-the-stream-ends", ev |-> e])>>)
       [] e.e = "mcast-leave" ->
            /\ IF e.players_ok /\ e.consumers_after_first_left >= 1 /\ e.second_still_connected THEN TRUE
               ELSE PrintT(<<"@BAD", ToJson([line |-> l', t |-> e.t, why |-> "C01:multicast-delivery-stops-for-the-others-when-the-first-player-leaves", ev |-> e])>>)
            /\ IF e.consumers_after_all_left = 0 THEN TRUE
               ELSE PrintT(<<"@BAD", ToJson([line |-> l', t |-> e.t, why |-> "C12:teardown-does-not-release-the-multicast-membership (the proxy keeps consuming after the last player left)", ev |-> e])>>)
       [] e.e = "mcast-swap" ->
            /\ IF e.joiner_dropped = 0 THEN TRUE
               ELSE PrintT(<<"@BAD", ToJson([line |-> l', t |-> e.t, why |-> "C03:multicast-player-that-joins-while-another-leaves-is-disconnected", ev |-> e])>>)
            /\ IF e.handshakes * 2 >= e.tries /\ e.gated * 2 >= e.tries THEN TRUE
               ELSE PrintT(<<"@BAD", ToJson([line |-> l', t |-> e.t, why |-> "C03:vacuous-multicast-swap", ev |-> e])>>)
================================================================================
