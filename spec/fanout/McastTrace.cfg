INIT Init
NEXT McastNext
CHECK_DEADLOCK FALSE
POSTCONDITION AllConsumed
