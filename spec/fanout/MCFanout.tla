-------------------------------- MODULE MCFanout -------------------------------
(* Model-checking harness: the implementation-level model Fanout together with
   the property-level invariants of FanoutProp evaluated on its observation
   variables, plus the emission of schedules for replay on the real code.      *)
EXTENDS Fanout, Json
CONSTANTS ReplayVideoOnly, EmitMode

(* packet sequences selectable from a cfg (Pkts <- PktsXxx) *)
PktsVSPKN == <<"vps", "sps", "pps", "key", "non">>
PktsMVAKN == <<"meta", "vsh", "ash", "key", "non">>
PktsMVKAK == <<"meta", "vsh", "key", "aud", "key">>
PktsVKNA  == <<"vsh", "key", "non", "aud">>
PktsVKK    == <<"vsh", "key", "key">>
PktsSKN   == <<"sps", "key", "non">>
PktsKN    == <<"key", "non">>
PktsK     == <<"key">>
PktsSPKNK == <<"sps", "pps", "key", "non", "key">>
PktsKAN   == <<"key", "aud", "non">>
PktsKNSPN == <<"key", "non", "sps", "pps", "non">>
PktsKNKN  == <<"key", "non", "key", "non">>
PktsKNNKNNK == <<"key", "non", "non", "key", "non", "non", "key">>
PktsK4 == <<"key", "non", "non", "key", "non", "non", "key", "non", "non", "key", "non", "non", "key">>

P == INSTANCE FanoutProp

View == <<pc, status, cache, map, count, q, closedF, disc, gitem, lk, pi, prange, crange, cur,
          delivered, tclosed, cached, sentAll, lo, hi, stopLate, withheld>>     \* everything but hist

Attached(c) == pc[J(c)] = "done"
HiNow(c) == IF hi[c] >= 0 THEN hi[c] ELSE cached

(* ---- C01 / C02 ----------------------------------------------------------- *)
NoBacklogDrop == \A c \in Cons : withheld[c] = <<>>
Delivery == \A c \in Cons : (lo[c] >= 0 /\ withheld[c] = <<>>) => P!DeliveredOK(delivered[c], lo[c], HiNow(c), cached)
Untouched(c) == status = "ok" /\ ~closedF[c] /\ c \notin Panics
Complete == (Quiescent /\ NoBacklogDrop) =>
              \A c \in Cons : (Attached(c) /\ Untouched(c)) =>
                   /\ pc[G(c)] = "waiting" /\ q[c] = <<>>
                   /\ P!DeliveredAll(delivered[c], lo[c], hi[c], cached)

(* ---- C03 ----------------------------------------------------------------- *)
CountNonNegative == count >= 0
Released == Quiescent =>
   /\ status = "closed" =>
        /\ \A c \in Cons : Attached(c) => (tclosed[c] >= 1 /\ pc[G(c)] = "done")
        /\ count = 0 /\ map = {}
   /\ \A c \in Stoppers : (stopLate[c] /\ Attached(c)) => (tclosed[c] >= 1 /\ pc[G(c)] = "done" /\ c \notin map)
   /\ \A c \in Cons \cap Panics : (Attached(c) /\ delivered[c] # <<>>) => (tclosed[c] >= 1 /\ pc[G(c)] = "done" /\ c \notin map)
   /\ count = Cardinality(map)
(* stopping one consumer closes that one only *)
OnlyTheStopped == \A c \in Cons : (tclosed[c] > 0 /\ status = "ok" /\ c \notin Panics) => c \in Stoppers

(* ---- C04 ----------------------------------------------------------------- *)
(* the publisher never waits for a consumer: whenever it has something to do it can do it,
   unless it is waiting for the join lock, whose holder can always move                    *)
PubStep == PubStart \/ PubCache \/ PubRange \/ PubSend \/ PubSent
PublisherNeverBlocked ==
  pc["pub"] \notin {"done", "lockwait"} => ENABLED PubStep
LockHolderMoves == (FixJoin /\ lk # "free") => pc[lk] \notin {"waiting", "lockwait", "done", "idle"}

(* withheld runs begin at a key packet and the next packet given to the consumer is a key packet *)
DropsAligned ==
  /\ \A c \in Cons : lo[c] >= 0 => P!DeliveredOKDrops(delivered[c], lo[c], HiNow(c), cached)
  /\ \A c \in Cons : \A i \in P!Range(withheld[c]) :
        ((i - 1) \notin P!Range(withheld[c])) => Pkts[i] = "key"      \* a withheld run begins at a key packet; that it
                                                                    \* ends at one is the AlignedLive part of DeliveredOKDrops
Backlog == \A c \in Cons : P!BacklogOK(Len(q[c]), MaxQ, 2 + P!G, cached)

(* ---- schedule emission ---------------------------------------------------- *)
(* EmitMode "edges": printed from an ACTION_CONSTRAINT, once per explored transition (BFS with
   VIEW = View, so one shortest schedule per (state, action) edge).
   EmitMode "final": printed when a behaviour reaches quiescence (simulation).              *)
(* "racy" edges: transitions taken while at least RacyMin processes are in the middle of an operation
   (parked at an inner hook); the quick tier replays the edge cover restricted to them *)
Inner(p) == pc[p] \notin {"start", "done", "idle", "waiting", "lockwait"}
RacyMin == 3
Racy == Cardinality({p \in Procs : Inner(p)}) >= RacyMin
(* class of a transition, for stratified sampling of the edge cover: where every process is parked after it,
   who moved, the kind of the packet in flight, capped queue lengths and the closed flags                    *)
Cap2(n) == IF n > 2 THEN 2 ELSE n
EdgeClass == <<pc', hist'[Len(hist')], IF pi' <= NP THEN Kind(pi') ELSE "-", [c \in Cons |-> Cap2(Len(q'[c]))], closedF', disc'>>
EmitEdge ==
  CASE EmitMode = "edges" \/ (EmitMode = "racy" /\ Racy) -> PrintT(<<"@E", ToJson([h |-> hist', k |-> ToJson(EdgeClass)])>>)
    [] EmitMode = "racy1" /\ Racy ->      \* first (BFS-shortest) transition of every class only; needs -workers 1
         IF EdgeClass \in TLCGet(1) THEN TRUE
         ELSE TLCSet(1, TLCGet(1) \cup {EdgeClass}) /\ PrintT(<<"@E", ToJson([h |-> hist', k |-> "first"])>>)
    [] OTHER -> TRUE
InitR == Init /\ TLCSet(1, {})
EmitFinal == (EmitMode = "final" /\ Quiescent) => PrintT(<<"@S", ToJson(hist)>>)
================================================================================
