\* edge cover of the as-is model: one shortest behaviour per class of transition (EdgeClass); -workers 1
CONSTANTS F = 1
 MaxFrames = 7
 Steps <- StepsC
 Memory = TRUE
 Readers = {r1}
 Tokens = {t1}
 MaxOps = 2
 MaxBuf = 5
 FixSegPool = TRUE
 FixM3u8Pool = TRUE
 EmitLen = 999
 FixAudioCut = FALSE
INIT InitR
NEXT Next
VIEW View
INVARIANTS WindowOK ExactlyOnce Bounded ReaderIntegrity PlaylistIntegrity
ACTION_CONSTRAINT EmitEdge
CHECK_DEADLOCK FALSE
