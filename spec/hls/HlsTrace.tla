------------------------------- MODULE HlsTrace -------------------------------
(* C10 - acceptor for what HLS clients and the segment store show (trace validation; env VERIF_TRACE).
   This is the statement, not the implementation: it knows nothing about how segments are cut.  Records, written by
   the driver from the outside of hls.Playlist / hls.SegmentGenerator (harness/c10) with an independent playlist
   parser and TS demultiplexer:
     [e |-> "begin", t, F, mem, path]
     [e |-> "frame", k ("key"|"non"|"aud"), id (per kind, 1..), pts (ticks of one second)]     a source frame was written
     [e |-> "seg", seq, hash, bad (broken TS rules), v, a (source frame ids found, in order), fk (kind of first video unit),
            prefix (AUD / SPS / PPS where required), intact (payload bytes equal the source), pts_ok]   Segment(seq) resolved now
     [e |-> "win", seqs]               all sequence numbers that resolve now
     [e |-> "store", files]            disk mode: sequence numbers of the files in the segment directory
     [e |-> "list", r, tok, ok, syntax, target, mseq, ents: <<[seq, dur_ms, tok, path, disc]>>]       M3u8(tok) as returned
     [e |-> "deliver", r, syntax, target, mseq, ents]   the same returned bytes, parsed when the HTTP handler writes them
     [e |-> "open", r, seq, ok]        Segment(seq) called, reader kept
     [e |-> "read", r, seq, hash]      the kept reader drained later
     [e |-> "hlist", final, ok, status, tok, syntax, target, mseq, ents]    GET /streams/{path}.m3u8?token=tok on the running server
     [e |-> "hseg", final, seq, status, hash]                               GET of a listed URI
     [e |-> "closed", left]            stream closed; files left in the directory
   One @BAD line per violated clause. *)
EXTENDS Integers, Sequences, FiniteSets, TLC, Json, IOUtils
Trace == ndJsonDeserialize(IOEnv.VERIF_TRACE)
VARIABLES l, F, mem, path,
          vp, ap,      \* pts of the source frames by id
          known,       \* seq -> what the segment with that number is (first sight)
          maxSeq, lastv, lasta,
          cw,          \* sequence numbers that resolve now
          everOk,      \* the playlist has been available
          pend,        \* reader -> playlist it was handed
          opened       \* reader -> seq
vars == <<F, mem, path, vp, ap, known, maxSeq, lastv, lasta, cw, everOk, pend, opened>>
Init == l = 0 /\ F = 0 /\ mem = TRUE /\ path = "" /\ vp = <<>> /\ ap = <<>> /\ known = <<>> /\ maxSeq = 0 /\ lastv = 0 /\ lasta = 0
        /\ cw = <<>> /\ everOk = FALSE /\ pend = <<>> /\ opened = <<>>
Bad(e, why) == PrintT(<<"@BAD", ToJson([line |-> l', t |-> e.t, why |-> why, ev |-> e])>>)
Ok(cond, e, why) == IF cond THEN TRUE ELSE Bad(e, why)
Put(f, k, v) == [x \in DOMAIN f \cup {k} |-> IF x = k THEN v ELSE f[x]]
Range(s) == {s[i] : i \in DOMAIN s}
Run(s, from) == \A i \in 1..Len(s) : s[i] = from + i
\* fragment length 0 (only reachable through the package API): sub-100 ms fragments are dropped by design together with their
\* frames, so between segments frames may be missing - but never duplicated, reordered or missing inside a segment
Run0(s, from) == s = <<>> \/ (s[1] > from /\ \A i \in 1..Len(s) - 1 : s[i + 1] = s[i] + 1)
Follows(s, from) == IF F = 0 THEN Run0(s, from) ELSE Run(s, from)
Min(a, b) == IF a < b THEN a ELSE b
\* the first source time stamp found in a segment
FirstPts(k) == LET ps == {vp[i] : i \in {j \in Range(k.v) : j \in DOMAIN vp}} \cup {ap[i] : i \in {j \in Range(k.a) : j \in DOMAIN ap}}
               IN IF ps = {} THEN 0 ELSE CHOOSE x \in ps : \A y \in ps : x <= y
ListOk(e, tok) ==
    /\ Ok(e.syntax, e, "C10:playlist-syntax")
    /\ Ok(Len(e.ents) = 3, e, "C10:playlist-does-not-list-exactly-three-segments")
    /\ Ok(\A i \in 1..Len(e.ents) - 1 : e.ents[i + 1].seq = e.ents[i].seq + 1, e, "C10:listed-sequence-numbers-not-consecutive")
    /\ Ok(e.ents = <<>> \/ e.mseq = e.ents[1].seq, e, "C10:media-sequence-is-not-the-first-listed-segment")
    /\ Ok(\A i \in 1..Len(e.ents) : e.target * 1000 >= e.ents[i].dur_ms, e, "C10:target-duration-below-a-listed-duration")
    /\ Ok(\A i \in 1..Len(e.ents) : e.ents[i].tok = tok, e, "C10:uri-does-not-carry-the-caller's-token")
    /\ Ok(\A i \in 1..Len(e.ents) : e.ents[i].path = path, e, "C10:uri-names-another-stream")
Next ==
  /\ l < Len(Trace) /\ l' = l + 1
  /\ LET e == Trace[l'] IN
     CASE e.e = "begin" ->
            /\ F' = e.F /\ mem' = e.mem /\ path' = e.path /\ vp' = <<>> /\ ap' = <<>> /\ known' = <<>> /\ maxSeq' = 0 /\ lastv' = 0 /\ lasta' = 0
            /\ cw' = <<>> /\ everOk' = FALSE /\ pend' = <<>> /\ opened' = <<>>
       [] e.e = "frame" ->
            /\ IF e.k = "aud" THEN ap' = Append(ap, e.pts) /\ vp' = vp ELSE vp' = Append(vp, e.pts) /\ ap' = ap
            /\ UNCHANGED <<F, mem, path, known, maxSeq, lastv, lasta, cw, everOk, pend, opened>>
       [] e.e = "seg" ->
            IF e.seq \in DOMAIN known
            THEN /\ Ok(e.hash = known[e.seq].hash, e, "C10:segment-bytes-changed-for-the-same-sequence-number")
                 /\ UNCHANGED <<F, mem, path, vp, ap, known, maxSeq, lastv, lasta, cw, everOk, pend, opened>>
            ELSE /\ Ok(e.seq = maxSeq + 1, e, "C10:sequence-number-skipped-or-reused")
                 /\ Ok(e.bad = <<>>, e, "C10:segment-is-not-a-valid-transport-stream")
                 /\ Ok(e.intact /\ e.pts_ok, e, "C10:segment-does-not-carry-the-source-frames-faithfully")
                 /\ Ok(e.prefix, e, "C10:access-unit-prefix (AUD, SPS/PPS before key frames)")
                 /\ Ok(Follows(e.v, lastv), e, "C10:video-frames-lost-duplicated-or-reordered-across-segments")
                 /\ Ok(Follows(e.a, lasta), e, "C10:audio-frames-lost-duplicated-or-reordered-across-segments")
                 /\ Ok(e.v # <<>> \/ e.a # <<>>, e, "C10:empty-segment")
                 /\ IF e.seq > 1 /\ e.fk = "non"
                    THEN \* the cause is named from the outside: how long the previous segment had been open (the very first
                         \* segment counts from time 0, not from its first frame)
                         IF maxSeq \in DOMAIN known /\ FirstPts(e) - (IF maxSeq = 1 THEN 0 ELSE FirstPts(known[maxSeq])) >= 2 * F
                         THEN Bad(e, "C10:segment-starts-with-a-non-key-frame:cut-at-twice-the-fragment-length")
                         ELSE Bad(e, "C10:segment-starts-with-a-non-key-frame")
                    ELSE TRUE
                 /\ known' = Put(known, e.seq, [hash |-> e.hash, v |-> e.v, a |-> e.a])
                 /\ maxSeq' = IF e.seq > maxSeq THEN e.seq ELSE maxSeq
                 /\ lastv' = (IF e.v = <<>> THEN lastv ELSE e.v[Len(e.v)]) /\ lasta' = (IF e.a = <<>> THEN lasta ELSE e.a[Len(e.a)])
                 /\ UNCHANGED <<F, mem, path, vp, ap, cw, everOk, pend, opened>>
       [] e.e = "win" ->
            /\ Ok(Len(e.seqs) = Min(3, maxSeq) /\ Run(e.seqs, maxSeq - Len(e.seqs)), e,
                  "C10:resolvable-segments-are-not-the-most-recent-three (older ones must be deleted, recent ones kept)")
            /\ cw' = e.seqs
            /\ UNCHANGED <<F, mem, path, vp, ap, known, maxSeq, lastv, lasta, everOk, pend, opened>>
       [] e.e = "store" ->
            /\ Ok(Range(e.files) = Range(cw) \cup {maxSeq + 1} /\ Len(e.files) = Len(cw) + 1, e,
                  "C10:stored-files-are-not-the-listed-segments-plus-the-open-one")
            /\ UNCHANGED vars
       [] e.e = "list" ->
            /\ IF e.ok
               THEN /\ ListOk(e, e.tok)
                    /\ Ok(\A i \in 1..Len(e.ents) : e.ents[i].seq \in Range(cw), e, "C10:listed-uri-does-not-resolve")
                    /\ Ok(Len(cw) < 3 \/ (Len(e.ents) = 3 /\ e.ents[3].seq = cw[Len(cw)]), e, "C10:playlist-does-not-list-the-most-recent-complete-segments")
               ELSE Ok(Len(cw) < 3 /\ ~everOk, e, "C10:playlist-refused-although-three-segments-are-available")
            /\ everOk' = (everOk \/ e.ok)
            /\ pend' = IF e.ok /\ e.r # "obs" THEN Put(pend, e.r, [target |-> e.target, mseq |-> e.mseq, ents |-> e.ents, tok |-> e.tok]) ELSE pend
            /\ UNCHANGED <<F, mem, path, vp, ap, known, maxSeq, lastv, lasta, cw, opened>>
       [] e.e = "deliver" ->
            /\ IF e.r \in DOMAIN pend
               THEN Ok(e.syntax /\ e.target = pend[e.r].target /\ e.mseq = pend[e.r].mseq /\ e.ents = pend[e.r].ents, e,
                       "C10:playlist-bytes-changed-between-M3u8-and-the-response (pooled buffer)")
               ELSE TRUE
            /\ UNCHANGED vars
       [] e.e = "open" ->
            /\ Ok(e.ok = (e.seq \in Range(cw)), e, "C10:segment-lookup-disagrees-with-the-window")
            /\ opened' = Put(opened, e.r, e.seq)
            /\ UNCHANGED <<F, mem, path, vp, ap, known, maxSeq, lastv, lasta, cw, everOk, pend>>
       [] e.e = "read" ->
            /\ Ok(e.seq \in DOMAIN known /\ e.hash = known[e.seq].hash, e, "C10:segment-read-after-rollover-is-not-the-segment-that-was-opened")
            /\ UNCHANGED vars
       [] e.e = "hlist" ->     \* over HTTP, concurrently with the publisher (final: after it went quiet)
            /\ IF e.ok THEN ListOk(e, e.tok) ELSE TRUE
            /\ Ok(~e.final \/ (e.ok /\ Len(e.ents) = 3 /\ e.ents[3].seq = maxSeq), e, "C10:http-playlist-does-not-list-the-most-recent-complete-segments")
            /\ UNCHANGED vars
       [] e.e = "hseg" ->
            /\ Ok(e.status \in {200, 404}, e, "C10:http-segment-request-failed")
            /\ Ok(e.status # 200 \/ (e.seq \in DOMAIN known /\ e.hash = known[e.seq].hash), e,
                  "C10:http-segment-is-not-byte-for-byte-the-transport-stream-of-that-sequence-number")
            /\ Ok(~e.final \/ e.status = 200, e, "C10:listed-uri-does-not-resolve")
            /\ UNCHANGED vars
       [] e.e = "closed" ->
            /\ Ok(e.left = 0, e, "C10:segment-files-left-behind-after-close")
            /\ UNCHANGED vars
AllConsumed == TLCGet("stats").diameter = Len(Trace) + 1
================================================================================
