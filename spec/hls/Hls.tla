------------------------------- MODULE Hls -------------------------------
(* The HLS segmenter, playlist window, segment storage and its readers, at the grain of the code:

     av/format/hls/segmentgenerator.go   WriteMpegtsFrame / reapSegment / segmentClose / segmentOpen
     av/format/hls/playlist.go           addSegment / clearSegments / M3u8 / Segment  (one RW lock)
     av/format/hls/segmentfile.go        memory segments on pooled buffers, disk segments as files

   Time is counted in ticks (the drivers use 1 tick = 0.5 s, so "shorter than 100 ms" is "0 ticks" and
   "older than the 100 ms audio delay" is ">= 1 tick").  One Write* action is one call of WriteMpegtsFrame:
   the generator is single-threaded and everything it does to the playlist happens under the write lock.
   Readers are other goroutines: List / Open take the read lock, Deliver / Read happen after it was released.

   Storage objects ("buffers") are numbered.  In memory mode as found, delete() returns the buffer to a
   sync.Pool and segmentOpen may get it back (Reuse); readers hold the buffer, not a copy.  With FixSegPool
   (fix in the repository) a reader holds a private copy.  The playlist text is rendered into a pooled buffer
   too (FixM3u8Pool: the caller gets a copy).  FixAudioCut is the named deviation behind the known finding:
   as found, an audio frame cuts the segment at twice the fragment length even in the middle of a GOP. *)
EXTENDS Integers, Sequences, FiniteSets, TLC, Json

CONSTANTS F,            \* fragment length, ticks
          MaxFrames,    \* input length bound
          Steps,        \* set of time increments between frames
          Memory,       \* TRUE memory segments (pooled), FALSE files
          Readers, Tokens,
          MaxOps,       \* bound on reader operations
          MaxBuf,       \* sync.Pool may hand out a new buffer although it holds old ones, up to this many in all
          FixSegPool, FixM3u8Pool, FixAudioCut,
          EmitLen       \* behaviours are printed when they reach this length (generation configs)

Remain == 3
None == [seq |-> 0]

VARIABLES now,      \* pts of the last frame written
          lastv,    \* pts of the last video frame
          nv, na,   \* video / audio frames written so far; frame ids are per kind: 1..nv and 1..na
          seqNo, cur,   \* open segment: [seq, start, dur, b, hdr] or None
          cache,    \* audio cache: [ids, pts] (ids = <<>> when empty)
          win,      \* closed segments in the playlist, oldest first: [seq, dur, b, hdr]
          buf,      \* storage: buffer id -> [seq, v, a, fk] (what is stored there now)
          pool,     \* free pooled buffers
          nbuf,     \* buffers ever allocated
          rd,       \* reader -> [st, seq, b, want]      segment fetch in progress
          pl,       \* reader -> [st, m, want]           playlist fetch in progress
          mbuf, mpool, \* playlist text buffers: id -> rendered content
          ops,
          hist      \* what happened, for the replay drivers (not part of the view)

vars == <<now, lastv, nv, na, seqNo, cur, cache, win, buf, pool, nbuf, rd, pl, mbuf, mpool, ops, hist>>
View == <<now, lastv, nv, na, seqNo, cur, cache, win, buf, pool, nbuf, rd, pl, mbuf, mpool, ops>>

Empty == [seq |-> 0, v |-> <<>>, a |-> <<>>, fk |-> "none"]
Reuse == Memory /\ ~FixSegPool

Last(s) == s[Len(s)]
Proj == [w |-> [i \in 1..Len(win) |-> [seq |-> win[i].seq, dur |-> win[i].dur, v |-> buf[win[i].b].v, a |-> buf[win[i].b].a]],
         open |-> IF cur = None THEN 0 ELSE cur.seq]
Rec(op, args) == hist' = Append(hist, [op |-> op, args |-> args, obs |-> [w |-> [i \in 1..Len(win') |->
                        [seq |-> win'[i].seq, dur |-> win'[i].dur, v |-> buf'[win'[i].b].v, a |-> buf'[win'[i].b].a]],
                        open |-> cur'.seq]])

n == nv + na
Init == /\ now = 0 /\ lastv = 0 /\ nv = 0 /\ na = 0 /\ seqNo = 1
        /\ cur = [seq |-> 1, start |-> 0, dur |-> 0, b |-> 1, hdr |-> TRUE]
        /\ cache = [ids |-> <<>>, pts |-> 0]
        /\ win = <<>> /\ buf = [b \in {1} |-> [Empty EXCEPT !.seq = 1]] /\ pool = {} /\ nbuf = 1
        /\ rd = [r \in Readers |-> [st |-> "idle"]] /\ pl = [r \in Readers |-> [st |-> "idle"]]
        /\ mbuf = <<>> /\ mpool = {} /\ ops = 0 /\ hist = <<>>

-----------------------------------------------------------------------------
(* pure helpers on a "generator state" record g = [seqNo, cur, win, buf, pool, nbuf, cache] *)

UpdDur(c, pts) == IF pts < c.start THEN c ELSE [c EXCEPT !.dur = pts - c.start]

\* flushFrame: video frame id (kind k) or the audio cache into the open segment
PutVideo(g, id, k, pts) ==
    LET c == UpdDur(g.cur, pts) b == c.b IN
    [g EXCEPT !.cur = c, !.buf[b].v = Append(@, id), !.buf[b].fk = IF @ = "none" THEN k ELSE @]
FlushCache(g) ==
    IF g.cache.ids = <<>> THEN g ELSE
    LET c == UpdDur(g.cur, g.cache.pts) b == c.b IN
    [g EXCEPT !.cur = c, !.buf[b].a = @ \o g.cache.ids, !.cache = [ids |-> <<>>, pts |-> 0]]

\* delete(): a pooled buffer keeps its bytes until somebody overwrites them; anything else is gone
Delete(g, b) == IF Reuse THEN [g EXCEPT !.pool = @ \cup {b}] ELSE [g EXCEPT !.buf = [x \in DOMAIN @ \ {b} |-> @[x]]]

\* segmentClose + addSegment + clearSegments
CloseSeg(g) ==
    LET c == g.cur IN
    IF c.dur = 0   \* shorter than 100 ms: dropped, number reused
    THEN [Delete(g, c.b) EXCEPT !.seqNo = @ - 1, !.cur = None]
    ELSE LET w == Append(g.win, [seq |-> c.seq, dur |-> c.dur, b |-> c.b, hdr |-> c.hdr])
             g1 == [g EXCEPT !.win = w, !.cur = None] IN
         IF Len(w) > Remain THEN [Delete(g1, w[1].b) EXCEPT !.win = Tail(w)] ELSE g1

\* segmentOpen with buffer choice bb (a pooled one or a fresh one)
OpenSeg(g, start, bb) ==
    LET s == g.seqNo + 1 fresh == bb \notin DOMAIN g.buf IN
    [g EXCEPT !.seqNo = s, !.cur = [seq |-> s, start |-> start, dur |-> 0, b |-> bb, hdr |-> FALSE],
              !.pool = @ \ {bb}, !.nbuf = IF bb > @ THEN bb ELSE @,
              !.buf = [x \in DOMAIN @ \cup {bb} |-> IF x = bb THEN [Empty EXCEPT !.seq = s] ELSE @[x]]]

G == [seqNo |-> seqNo, cur |-> cur, win |-> win, buf |-> buf, pool |-> pool, nbuf |-> nbuf, cache |-> cache]
Set(g) == /\ seqNo' = g.seqNo /\ cur' = g.cur /\ win' = g.win /\ buf' = g.buf /\ pool' = g.pool /\ nbuf' = g.nbuf /\ cache' = g.cache

\* which buffer a segmentOpen after CloseSeg(G) may receive: sync.Pool gives back any pooled one or a new one
Choices(g) == IF g.pool # {} THEN g.pool \cup (IF g.nbuf < MaxBuf THEN {g.nbuf + 1} ELSE {}) ELSE {g.nbuf + 1}

-----------------------------------------------------------------------------
WriteVideo(k, dt) ==
    /\ n < MaxFrames
    /\ LET pts == now + dt id == nv + 1 IN
       \* input assumption: video (re)starts with a key frame after an audio-only gap of two fragment lengths
       /\ k = "non" => pts - lastv < 2 * F
       /\ now' = pts /\ lastv' = pts /\ nv' = id /\ na' = na
       /\ IF k = "key" /\ cur.dur >= F
          THEN LET g0 == CloseSeg(G) IN
               \E bb \in Choices(g0) : Set(PutVideo(FlushCache(OpenSeg(g0, pts, bb)), id, k, pts))
          ELSE Set(PutVideo(G, id, k, pts))
       /\ Rec("frame", [id |-> id, k |-> k, pts |-> pts])
    /\ UNCHANGED <<rd, pl, mbuf, mpool, ops>>

HasVideo == buf[cur.b].v # <<>>
WriteAudio(dt) ==
    /\ n < MaxFrames
    /\ LET pts == now + dt id == na + 1
           c1 == IF cache.ids = <<>> THEN [ids |-> <<id>>, pts |-> pts] ELSE [cache EXCEPT !.ids = Append(@, id)]
           g1 == [G EXCEPT !.cache = c1] IN
       /\ now' = pts /\ na' = id /\ nv' = nv /\ lastv' = lastv
       /\ IF pts - c1.pts >= 1
          THEN Set(FlushCache(g1))
          ELSE IF cur.dur >= 2 * F /\ (FixAudioCut => ~HasVideo)
               THEN LET g0 == CloseSeg(g1) IN \E bb \in Choices(g0) : Set(FlushCache(OpenSeg(g0, pts, bb)))
               ELSE Set(g1)
       /\ Rec("frame", [id |-> id, k |-> "aud", pts |-> pts])
    /\ UNCHANGED <<rd, pl, mbuf, mpool, ops>>

-----------------------------------------------------------------------------
(* readers *)
Render(tok) == [seqs |-> [i \in 1..Len(win) |-> win[i].seq], durs |-> [i \in 1..Len(win) |-> win[i].dur], tok |-> tok]

List(r, tok) ==
    /\ ops < MaxOps /\ pl[r].st = "idle" /\ ops' = ops + 1
    /\ UNCHANGED <<now, lastv, nv, na, seqNo, cur, cache, win, buf, pool, nbuf, rd>>
    /\ IF Len(win) < Remain
       THEN /\ UNCHANGED <<pl, mbuf, mpool>>
            /\ Rec("list", [r |-> r, tok |-> tok, ok |-> FALSE])
       ELSE \E m \in mpool \cup {Len(mbuf) + 1} :
            /\ mbuf' = IF m > Len(mbuf) THEN Append(mbuf, Render(tok)) ELSE [mbuf EXCEPT ![m] = Render(tok)]
            /\ pl' = [pl EXCEPT ![r] = [st |-> "got", m |-> m, want |-> Render(tok)]]
            \* the deferred Put runs when M3u8 returns; as found the caller still holds a slice of that buffer
            /\ mpool' = mpool \cup {m}
            /\ Rec("list", [r |-> r, tok |-> tok, ok |-> TRUE])

\* the caller writes the bytes it was handed to its HTTP response
Delivered(r) == IF FixM3u8Pool THEN pl[r].want ELSE mbuf[pl[r].m]
Deliver(r) ==
    /\ pl[r].st = "got" /\ pl' = [pl EXCEPT ![r] = [st |-> "idle"]]
    /\ UNCHANGED <<now, lastv, nv, na, seqNo, cur, cache, win, buf, pool, nbuf, rd, mbuf, mpool, ops>>
    /\ Rec("deliver", [r |-> r])

Open(r, i) ==
    /\ ops < MaxOps /\ rd[r].st = "idle" /\ i \in 1..Len(win) /\ ops' = ops + 1
    /\ rd' = [rd EXCEPT ![r] = [st |-> "open", seq |-> win[i].seq, b |-> win[i].b, want |-> buf[win[i].b]]]
    /\ UNCHANGED <<now, lastv, nv, na, seqNo, cur, cache, win, buf, pool, nbuf, pl, mbuf, mpool>>
    /\ Rec("open", [r |-> r, seq |-> win[i].seq])

\* a reader of a pooled buffer sees whatever is in it now; a copy / an open file keeps what was there
Got(r) == IF Reuse THEN buf[rd[r].b] ELSE rd[r].want
Read(r) ==
    /\ rd[r].st = "open" /\ rd' = [rd EXCEPT ![r] = [st |-> "idle"]]
    /\ UNCHANGED <<now, lastv, nv, na, seqNo, cur, cache, win, buf, pool, nbuf, pl, mbuf, mpool, ops>>
    /\ Rec("read", [r |-> r])

Next == /\ Len(hist) < EmitLen
        /\ \/ \E dt \in Steps : WriteVideo("key", dt) \/ WriteVideo("non", dt) \/ WriteAudio(dt)
           \/ \E r \in Readers : Deliver(r) \/ Read(r) \/ (\E t \in Tokens : List(r, t)) \/ \E i \in 1..Remain : Open(r, i)

Spec == Init /\ [][Next]_vars

-----------------------------------------------------------------------------
(* the statement's clauses *)
WindowOK == /\ Len(win) <= Remain
            /\ \A i \in 1..Len(win) - 1 : win[i + 1].seq = win[i].seq + 1
            /\ (win # <<>> /\ cur # None) => cur.seq = Last(win).seq + 1
            /\ (seqNo > Remain) => Len(win) = Remain          \* exactly three once available
            /\ \A i \in 1..Len(win) : win[i].b \in DOMAIN buf /\ buf[win[i].b].seq = win[i].seq   \* every listed URI resolves
KeyStart == \A i \in 1..Len(win) : (win[i].seq > 1 /\ buf[win[i].b].v # <<>>) => buf[win[i].b].fk = "key"
\* frames of the listed segments, the open one and the audio cache are consecutive, each exactly once, nothing lost
Concat(f(_)) == LET RECURSIVE C(_) C(i) == IF i > Len(win) THEN f(cur.b) ELSE f(win[i].b) \o C(i + 1) IN C(1)
Run(s, last) == /\ \A i \in 1..Len(s) - 1 : s[i + 1] = s[i] + 1
                /\ IF s = <<>> THEN last = 0 \/ Len(win) = Remain ELSE Last(s) = last
ExactlyOnce == /\ Run(Concat(LAMBDA b : buf[b].v), nv)
               /\ Run(Concat(LAMBDA b : buf[b].a) \o cache.ids, na)
\* nothing of a segment that left the window is lost: what the window starts with follows what was listed before
Bounded == Cardinality(DOMAIN buf \ pool) <= Remain + 1
ReaderIntegrity == \A r \in Readers : rd[r].st = "open" => Got(r) = rd[r].want
PlaylistIntegrity == \A r \in Readers : pl[r].st = "got" => Delivered(r) = pl[r].want

Emit == (Len(hist) = EmitLen) => PrintT(<<"@H", ToJson([hist |-> hist])>>)
\* first (BFS-shortest) behaviour per class of transition; needs -workers 1 and INIT InitR
Cap(x, m) == IF x > m THEN m ELSE x
EdgeClass == LET h == Last(hist') IN
    <<h.op, IF h.op = "frame" THEN h.args.k ELSE "", now' - now, Len(win), Cap(cur.dur, 2 * F + 1), Len(cache.ids) > 0, Len(cache'.ids) > 0,
      seqNo' - seqNo, Len(win'), cur'.b \in pool, Cardinality(pool), buf[cur.b].v # <<>>,
      [r \in Readers |-> <<rd[r].st, pl[r].st, IF rd[r].st = "open" THEN (\E i \in 1..Len(win) : win[i].seq = rd[r].seq) ELSE TRUE>>],
      IF h.op = "open" THEN h.args.seq - win[1].seq ELSE 0>>
EmitEdge == IF EdgeClass \in TLCGet(1) THEN TRUE
            ELSE TLCSet(1, TLCGet(1) \cup {EdgeClass}) /\ PrintT(<<"@H", ToJson([hist |-> hist'])>>)
InitR == Init /\ TLCSet(1, {})
=============================================================================
