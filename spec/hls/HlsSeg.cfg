CONSTANTS F = 2
 MaxFrames = 9
 Steps <- StepsA
 Memory = TRUE
 Readers = {}
 Tokens = {}
 MaxOps = 0
 MaxBuf = 5
 FixSegPool = TRUE
 FixM3u8Pool = TRUE
 EmitLen = 999
 FixAudioCut = TRUE
INIT Init
NEXT Next
VIEW View
INVARIANTS WindowOK KeyStart ExactlyOnce Bounded ReaderIntegrity PlaylistIntegrity
CHECK_DEADLOCK FALSE

