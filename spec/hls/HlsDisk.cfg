CONSTANTS F = 1
 MaxFrames = 10
 Steps <- StepsC
 Memory = FALSE
 Readers = {r1}
 Tokens = {t1}
 MaxOps = 3
 MaxBuf = 5
 FixSegPool = FALSE
 FixM3u8Pool = TRUE
 EmitLen = 999
 FixAudioCut = TRUE
INIT Init
NEXT Next
VIEW View
INVARIANTS WindowOK KeyStart ExactlyOnce Bounded ReaderIntegrity PlaylistIntegrity
CHECK_DEADLOCK FALSE

