CONSTANTS F = 0
 MaxFrames = 40
 Steps <- StepsC
 Memory = FALSE
 Readers = {r1, r2}
 Tokens = {t1, t2}
 MaxOps = 12
 MaxBuf = 6
 FixSegPool = TRUE
 FixM3u8Pool = TRUE
 EmitLen = 50
 FixAudioCut = FALSE
INIT Init
NEXT Next
INVARIANTS Emit WindowOK Bounded ReaderIntegrity PlaylistIntegrity
CHECK_DEADLOCK FALSE
