CONSTANTS F = 5
 MaxFrames = 60
 Steps <- StepsB
 Memory = TRUE
 Readers = {}
 Tokens = {}
 MaxOps = 0
 MaxBuf = 6
 FixSegPool = TRUE
 FixM3u8Pool = TRUE
 EmitLen = 60
 FixAudioCut = FALSE
INIT Init
NEXT Next
INVARIANTS Emit WindowOK ExactlyOnce Bounded
CHECK_DEADLOCK FALSE
