CONSTANTS F = 1
 MaxFrames = 10
 Steps <- StepsC
 Memory = TRUE
 Readers = {r1}
 Tokens = {t1, t2}
 MaxOps = 3
 MaxBuf = 5
 FixSegPool = TRUE
 FixM3u8Pool = TRUE
 EmitLen = 999
 FixAudioCut = TRUE
INIT Init
NEXT Next
VIEW View
INVARIANTS WindowOK KeyStart ExactlyOnce Bounded ReaderIntegrity PlaylistIntegrity
CHECK_DEADLOCK FALSE

