"""Common machinery for the ipchub verification checks.

Every check is a python module checks/<id>.py with a function run(ck) where ck is a
Check object from this file.  The Check object owns the scratch directory, runs TLC and
the Go harness, collects violations / known findings and writes evidence/<id>.json.

Exit codes (DESIGN.md section 1):
  0  property held on everything explored (KNOWN-FINDING lines possible)
  1  VIOLATION property=<id> replay=<path>
  2  infrastructure problem (build failure, TLC crash/timeout, dead driver ...)
"""
import json, os, re, shutil, subprocess, sys, tempfile, time, hashlib, itertools, threading

ROOT = os.path.dirname(os.path.dirname(os.path.abspath(__file__)))
SPEC = os.path.join(ROOT, "spec")
HARNESS = os.path.join(ROOT, "harness")
REPO = os.environ.get("VERIF_REPO", "/repo")
NCPU = os.cpu_count() or 4


class Infra(Exception):
    """Infrastructure failure -> exit 2, never a verdict."""


def goenv():
    e = dict(os.environ)
    e.update(GOFLAGS="-mod=mod", GOPROXY="off", GOSUMDB="off", GOTOOLCHAIN="local")
    return e


class TLCResult:
    def __init__(self, out, rc, wall):
        self.out, self.rc, self.wall = out, rc, wall
        m = re.findall(r"(\d+) states generated, (\d+) distinct states found", out)
        self.generated = int(m[-1][0]) if m else 0
        self.distinct = int(m[-1][1]) if m else 0
        self.violated = re.findall(r"Invariant (\S+) is violated", out) + \
            re.findall(r"Action property (\S+) is violated", out) + \
            (["<temporal>"] if "Temporal properties were violated" in out else [])
        self.postcond_failed = "Postcondition" in out and "violated" in out or "POSTCONDITION" in out and "violated" in out
        self.error = ("Error:" in out) or rc not in (0,)
        self.finished = "Model checking completed" in out or "Finished in" in out

    def printed(self, marker):
        """JSON values printed with PrintT(<<marker, ToJson(v)>>)."""
        res = []
        pre = '<<"%s", ' % marker
        for line in self.out.splitlines():
            if line.startswith(pre) and line.endswith(">>"):
                lit = line[len(pre):-2]
                try:
                    res.append(json.loads(json.loads(lit)))
                except Exception:
                    pass
        return res

    def last_seq(self, var):
        """value of a sequence-of-strings variable in the last state TLC printed (counterexample)"""
        idx = self.out.rfind("/\\ %s = <<" % var)
        if idx < 0:
            return None
        end = self.out.find(">>", idx)
        return re.findall(r'"([^"]*)"', self.out[idx:end])

    def coverage_zero(self):
        """names of actions/expressions with zero count in -coverage output"""
        z = []
        for line in self.out.splitlines():
            m = re.match(r"<(\w+) line .*>: (\d+):(\d+)", line)
            if m and m.group(2) == "0" and m.group(3) == "0":
                z.append(m.group(1))
        return z


class Check:
    def __init__(self, pid, tier, level="model_checking"):
        self.pid, self.tier, self.level = pid, tier, level
        self.seed = int(os.environ.get("VERIF_SEED", "1") or "1")
        self.t0 = time.time()
        self.tmp = tempfile.mkdtemp(prefix="verif_%s_" % pid)
        self.cov = {"states": 0, "transitions": 0, "traces_validated_against_impl": 0,
                    "samples": [], "evaluations": 0, "distinct_nontrivial": 0,
                    "checker_cmd": "", "tlc_runs": [], "model_drift": 0}
        self.assumptions = []
        self.violations = []      # (key, what, replay-object)
        self.known = []           # matched known findings
        self.notes = []
        kf = os.path.join(ROOT, "KNOWN_FINDINGS.json")
        self.kf = json.load(open(kf)) if os.path.exists(kf) else {"findings": [], "fixed": []}
        self._distinct = set()
        self._ctr = itertools.count()
        self._lock = threading.Lock()

    # ------------------------------------------------------------------ helpers
    def quick(self):
        return self.tier == "quick"

    def log(self, *a):
        print("[%s %6.1fs]" % (self.pid, time.time() - self.t0), *a, flush=True)

    def sample(self, s, limit=6):
        if len(self.cov["samples"]) < limit:
            self.cov["samples"].append(s)

    def count(self, n_eval, distinct_keys=()):
        self.cov["evaluations"] += n_eval
        for k in distinct_keys:
            self._distinct.add(k)

    # ------------------------------------------------------------------ TLC
    def tlc(self, specdir, module, cfg, workers=None, timeout=600, simulate=None, depth=None,
            env=None, coverage=False, must_pass=True, label=None, extra=(), dfid=None, heap=None, files=None, seed=None,
            gcthreads=None, small=False):
        """Run TLC on spec/<specdir>/<module>.tla in a scratch copy. Returns TLCResult.
        files: {name: content} written into the scratch copy (generated cfgs)."""
        src = os.path.join(SPEC, specdir)
        dst = os.path.join(self.tmp, "tlc_%s_%d" % (specdir.replace("/", "_"), next(self._ctr)))
        shutil.copytree(src, dst)
        for fn, content in (files or {}).items():
            with open(os.path.join(dst, fn), "w") as fh:
                fh.write(content)
        common = os.path.join(SPEC, "common")
        for f in os.listdir(common):
            if not os.path.exists(os.path.join(dst, f)):
                shutil.copy(os.path.join(common, f), dst)
        cmd = ["java", "-XX:+UseParallelGC", "-XX:ParallelGCThreads=%d" % (4 if gcthreads is None else gcthreads),
               "-XX:TieredStopAtLevel=1" if small else "-XX:+TieredCompilation"]
        if heap:
            cmd.append("-Xmx%s" % heap)
        jt = os.path.join(dst, "jtmp")   # TLC leaves a tlc-* directory per run in java.io.tmpdir: keep it inside the scratch copy
        os.makedirs(jt, exist_ok=True)
        cmd.append("-Djava.io.tmpdir=%s" % jt)
        cmd += ["-Xss64m", "-cp", "/opt/veriftools/tla/tla2tools.jar:/opt/veriftools/tla/CommunityModules-deps.jar",
                "tlc2.TLC", "-metadir", os.path.join(dst, "meta"), "-config", cfg,
                "-workers", str(workers or ("auto" if not simulate else 1))]
        if simulate:
            cmd += ["-simulate", simulate]
            if depth:
                cmd += ["-depth", str(depth)]
            cmd += ["-seed", str(self.seed if seed is None else seed)]
        if coverage:
            cmd += ["-coverage", "1"]
        cmd += list(extra) + [module + ".tla"]
        e = dict(os.environ)
        if env:
            e.update({k: str(v) for k, v in env.items()})
        t = time.time()
        try:
            p = subprocess.run(cmd, cwd=dst, env=e, stdout=subprocess.PIPE, stderr=subprocess.STDOUT,
                               timeout=timeout, text=True, errors="replace")
            out, rc = p.stdout, p.returncode
        except subprocess.TimeoutExpired as ex:
            out = (ex.stdout.decode("utf8", "replace") if isinstance(ex.stdout, bytes) else (ex.stdout or ""))
            subprocess.run(["pkill", "-f", dst], stderr=subprocess.DEVNULL)
            raise Infra("TLC timeout after %ds on %s/%s %s" % (timeout, specdir, module, cfg))
        r = TLCResult(out, rc, time.time() - t)
        self.cov["tlc_runs"].append({"spec": "%s/%s" % (specdir, module), "cfg": cfg, "label": label or "",
                                     "generated": r.generated, "distinct": r.distinct,
                                     "wall_s": round(r.wall, 1), "simulate": simulate or ""})
        if not self.cov["checker_cmd"]:
            self.cov["checker_cmd"] = "tlc -config %s spec/%s/%s.tla" % (cfg, specdir, module)
        shutil.rmtree(dst, ignore_errors=True)
        if must_pass and (r.violated or r.error):
            tail = "\n".join(out.splitlines()[-60:])
            raise Infra("TLC failed on %s/%s %s (violated=%s rc=%s)\n%s" % (specdir, module, cfg, r.violated, rc, tail))
        return r

    def model(self, r):
        """account an exhaustive TLC run in the evidence"""
        self.cov["states"] += r.distinct
        self.cov["transitions"] += r.generated

    # ------------------------------------------------------------------ Go harness
    def go_test(self, pkg, run, env=None, timeout=1200, tags="verif", must_build=True):
        e = goenv()
        e["VERIF_SEED"] = str(self.seed)
        e["VERIF_TIER"] = self.tier
        e["VERIF_TMP"] = self.tmp
        if env:
            e.update({k: str(v) for k, v in env.items()})
        gosum = os.path.join(HARNESS, "go.sum")
        if not os.path.exists(gosum):
            shutil.copy(os.path.join(REPO, "go.sum"), gosum)
        cmd = ["go", "test", "-tags", tags, "-count=1", "-timeout", "%ds" % timeout, "-run", run, pkg]
        if REPO != "/repo":
            # a scratch copy of the repository (bin/tryseed): same harness module, replace directive pointed at the copy
            mf = os.path.join(self.tmp, "alt.mod")
            if not os.path.exists(mf):
                txt = open(os.path.join(HARNESS, "go.mod")).read().replace("=> /repo", "=> " + REPO)
                open(mf, "w").write(txt)
                shutil.copy(gosum, os.path.join(self.tmp, "alt.sum"))
            cmd.insert(2, "-modfile=" + mf)
        t = time.time()
        try:
            p = subprocess.run(cmd, cwd=HARNESS, env=e, stdout=subprocess.PIPE, stderr=subprocess.STDOUT,
                               timeout=timeout + 120, text=True, errors="replace")
        except subprocess.TimeoutExpired:
            raise Infra("go test timeout: %s %s" % (pkg, run))
        out = p.stdout
        if "[build failed]" in out or "[setup failed]" in out or "cannot find package" in out:
            raise Infra("harness build failed for %s:\n%s" % (pkg, out[-3000:]))
        if "no tests to run" in out:
            raise Infra("dead driver: no test matched %s in %s" % (run, pkg))
        return p.returncode, out, time.time() - t

    def write_lines(self, name, rows):
        path = os.path.join(self.tmp, name)
        with open(path, "w") as f:
            for r in rows:
                f.write(json.dumps(r) + "\n")
        return path

    def run_driver(self, pkg, run, env, what=None, timeout=1200):
        """go test that must succeed (its verdicts are in the result file, not in the exit code)"""
        rc, txt, wall = self.go_test(pkg, run, env=env, timeout=timeout)
        if rc != 0:
            raise Infra("%s %s failed (driver error, not a verdict):\n%s" % (pkg, run, txt[-4000:]))
        return txt

    def read_result(self, path):
        if not os.path.exists(path):
            raise Infra("dead driver: harness wrote no result file %s" % path)
        return json.load(open(path))

    # ------------------------------------------------------------------ verdicts
    def violation(self, key, what, replay=None):
        """key: stable signature of the violating observation"""
        for f in self.kf.get("findings", []):
            if f.get("property") == self.pid and f.get("key") == key:
                if key not in [k for k, _ in self.known]:
                    self.known.append((key, f.get("what", what)))
                return
        self.violations.append((key, what, replay))

    def finish(self):
        wall = time.time() - self.t0
        self.cov["distinct_nontrivial"] = max(self.cov["distinct_nontrivial"], len(self._distinct))
        ev = {"property_id": self.pid, "tier": self.tier, "seed": self.seed, "level": self.level,
              "coverage": self.cov, "assumptions": self.assumptions, "wall_s": round(wall, 1),
              "violations": len(self.violations), "known_findings": [k for k, _ in self.known],
              "notes": self.notes}
        os.makedirs(os.path.join(ROOT, "evidence"), exist_ok=True)
        with open(os.path.join(ROOT, "evidence", "%s.json" % self.pid), "w") as f:
            json.dump(ev, f, indent=1, sort_keys=True, default=str)
            f.write("\n")
        for k, what in self.known:
            print("KNOWN-FINDING: property=%s %s (%s)" % (self.pid, what, k))
        rc = 0
        if self.violations:
            os.makedirs(os.path.join(ROOT, "replays"), exist_ok=True)
            seen = set()
            for key, what, replay in self.violations:
                if key in seen:
                    continue
                seen.add(key)
                h = hashlib.sha1(key.encode()).hexdigest()[:10]
                path = os.path.join(ROOT, "replays", "%s_%s.json" % (self.pid, h))
                with open(path, "w") as f:
                    json.dump({"property": self.pid, "key": key, "what": what, "replay": replay,
                               "seed": self.seed, "tier": self.tier}, f, indent=1, default=str)
                print("VIOLATION property=%s replay=%s" % (self.pid, path))
                print("  key=%s\n  %s" % (key, what))
                if len(seen) >= 20:
                    break
            rc = 1
        if not os.environ.get("VERIF_KEEP_TMP"):
            shutil.rmtree(self.tmp, ignore_errors=True)
        self.log("done rc=%d wall=%.1fs states=%d traces=%d evals=%d" % (
            rc, wall, self.cov["states"], self.cov["traces_validated_against_impl"], self.cov["evaluations"]))
        return rc

    def cleanup(self):
        if not os.environ.get("VERIF_KEEP_TMP"):
            shutil.rmtree(self.tmp, ignore_errors=True)
